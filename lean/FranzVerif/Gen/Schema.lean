/- GENERATED on every run by tools/krammar/krammar.py from <repo>/generate/definitions -- do not edit. -/
import FranzVerif.Model.C15
set_option maxRecDepth 100000
namespace Gen.Schema
open Model.C15

def S_ProduceRequest : Ty :=
  .struct false (some 9) (.cons "TransactionID" 3 none none .none (.str (.nstr (-32768)))
  (.cons "Acks" (-32768) none none .none (.prim .int16)
  (.cons "TimeoutMillis" (-32768) none none (.int 15000) (.prim .int32)
  (.cons "Topics" (-32768) none none .none (.arr .normal (.struct false (some 9) (.cons "Topic" 0 (some 12) none .none (.str .str)
  (.cons "TopicID" 13 none none .none (.prim .uuid)
  (.cons "Partitions" (-32768) none none .none (.arr .normal (.struct false (some 9) (.cons "Partition" (-32768) none none .none (.prim .int32)
  (.cons "Records" (-32768) none none .none (.str .nbytes)
  Fields.nil))))
  Fields.nil)))))
  Fields.nil))))

def S_ProduceResponse : Ty :=
  .struct false (some 9) (.cons "Topics" (-32768) none none .none (.arr .normal (.struct false (some 9) (.cons "Topic" 0 (some 12) none .none (.str .str)
  (.cons "TopicID" 13 none none .none (.prim .uuid)
  (.cons "Partitions" (-32768) none none .none (.arr .normal (.struct false (some 9) (.cons "Partition" (-32768) none none .none (.prim .int32)
  (.cons "ErrorCode" (-32768) none none .none (.prim .int16)
  (.cons "BaseOffset" (-32768) none none .none (.prim .int64)
  (.cons "LogAppendTime" 2 none none (.int (-1)) (.prim .int64)
  (.cons "LogStartOffset" 5 none none (.int (-1)) (.prim .int64)
  (.cons "ErrorRecords" 8 none none .none (.arr .normal (.struct false (some 9) (.cons "RelativeOffset" (-32768) none none .none (.prim .int32)
  (.cons "ErrorMessage" (-32768) none none .none (.str (.nstr (-32768)))
  Fields.nil))))
  (.cons "ErrorMessage" 8 none none .none (.str (.nstr (-32768)))
  (.cons "CurrentLeader" (-32768) none (some 0) .none (.struct false (some 9) (.cons "LeaderID" (-32768) none none (.int (-1)) (.prim .int32)
  (.cons "LeaderEpoch" (-32768) none none (.int (-1)) (.prim .int32)
  Fields.nil)))
  Fields.nil))))))))))
  Fields.nil)))))
  (.cons "ThrottleMillis" 1 none none .none (.prim .int32)
  (.cons "Brokers" (-32768) none (some 0) .none (.arr .normal (.struct false (some 9) (.cons "NodeID" (-32768) none none .none (.prim .int32)
  (.cons "Host" (-32768) none none .none (.str .str)
  (.cons "Port" (-32768) none none .none (.prim .int32)
  (.cons "Rack" (-32768) none none .none (.str (.nstr (-32768)))
  Fields.nil))))))
  Fields.nil)))

def S_FetchRequest : Ty :=
  .struct false (some 12) (.cons "ClusterID" (-32768) none (some 0) .null (.str (.nstr (-32768)))
  (.cons "ReplicaID" 0 (some 14) none (.int (-1)) (.prim .int32)
  (.cons "ReplicaState" (-32768) none (some 1) .none (.struct false (some 12) (.cons "ID" (-32768) none none (.int (-1)) (.prim .int32)
  (.cons "Epoch" (-32768) none none (.int (-1)) (.prim .int64)
  Fields.nil)))
  (.cons "MaxWaitMillis" (-32768) none none .none (.prim .int32)
  (.cons "MinBytes" (-32768) none none .none (.prim .int32)
  (.cons "MaxBytes" 3 none none (.int 2147483647) (.prim .int32)
  (.cons "IsolationLevel" 4 none none .none (.prim .int8)
  (.cons "SessionID" 7 none none .none (.prim .int32)
  (.cons "SessionEpoch" 7 none none (.int (-1)) (.prim .int32)
  (.cons "Topics" (-32768) none none .none (.arr .normal (.struct false (some 12) (.cons "Topic" 0 (some 12) none .none (.str .str)
  (.cons "TopicID" 13 none none .none (.prim .uuid)
  (.cons "Partitions" (-32768) none none .none (.arr .normal (.struct false (some 12) (.cons "Partition" (-32768) none none .none (.prim .int32)
  (.cons "CurrentLeaderEpoch" 9 none none (.int (-1)) (.prim .int32)
  (.cons "FetchOffset" (-32768) none none .none (.prim .int64)
  (.cons "LastFetchedEpoch" 12 none none (.int (-1)) (.prim .int32)
  (.cons "LogStartOffset" 5 none none (.int (-1)) (.prim .int64)
  (.cons "PartitionMaxBytes" (-32768) none none .none (.prim .int32)
  (.cons "ReplicaDirectoryID" (-32768) none (some 0) .none (.prim .uuid)
  (.cons "HighWatermark" (-32768) none (some 1) (.int 9223372036854775807) (.prim .int64)
  Fields.nil))))))))))
  Fields.nil)))))
  (.cons "ForgottenTopics" 7 none none .none (.arr .normal (.struct false (some 12) (.cons "Topic" 7 (some 12) none .none (.str .str)
  (.cons "TopicID" 13 none none .none (.prim .uuid)
  (.cons "Partitions" (-32768) none none .none (.arr .normal (.prim .int32))
  Fields.nil)))))
  (.cons "Rack" 11 none none .none (.str .str)
  Fields.nil))))))))))))

def S_FetchResponse : Ty :=
  .struct false (some 12) (.cons "ThrottleMillis" 1 none none .none (.prim .int32)
  (.cons "ErrorCode" 7 none none .none (.prim .int16)
  (.cons "SessionID" 7 none none .none (.prim .int32)
  (.cons "Topics" (-32768) none none .none (.arr .normal (.struct false (some 12) (.cons "Topic" 0 (some 12) none .none (.str .str)
  (.cons "TopicID" 13 none none .none (.prim .uuid)
  (.cons "Partitions" (-32768) none none .none (.arr .normal (.struct false (some 12) (.cons "Partition" (-32768) none none .none (.prim .int32)
  (.cons "ErrorCode" (-32768) none none .none (.prim .int16)
  (.cons "HighWatermark" (-32768) none none .none (.prim .int64)
  (.cons "LastStableOffset" 4 none none (.int (-1)) (.prim .int64)
  (.cons "LogStartOffset" 5 none none (.int (-1)) (.prim .int64)
  (.cons "DivergingEpoch" (-32768) none (some 0) .none (.struct false (some 12) (.cons "Epoch" (-32768) none none (.int (-1)) (.prim .int32)
  (.cons "EndOffset" (-32768) none none (.int (-1)) (.prim .int64)
  Fields.nil)))
  (.cons "CurrentLeader" (-32768) none (some 1) .none (.struct false (some 12) (.cons "LeaderID" (-32768) none none (.int (-1)) (.prim .int32)
  (.cons "LeaderEpoch" (-32768) none none (.int (-1)) (.prim .int32)
  Fields.nil)))
  (.cons "SnapshotID" (-32768) none (some 2) .none (.struct false (some 12) (.cons "EndOffset" (-32768) none none (.int (-1)) (.prim .int64)
  (.cons "Epoch" (-32768) none none (.int (-1)) (.prim .int32)
  Fields.nil)))
  (.cons "AbortedTransactions" 4 none none .none (.arr (.nullable (-32768)) (.struct false (some 12) (.cons "ProducerID" (-32768) none none .none (.prim .int64)
  (.cons "FirstOffset" (-32768) none none .none (.prim .int64)
  Fields.nil))))
  (.cons "PreferredReadReplica" 11 none none (.int (-1)) (.prim .int32)
  (.cons "RecordBatches" (-32768) none none .none (.str .nbytes)
  Fields.nil)))))))))))))
  Fields.nil)))))
  (.cons "Brokers" (-32768) none (some 0) .none (.arr .normal (.struct false (some 12) (.cons "NodeID" (-32768) none none .none (.prim .int32)
  (.cons "Host" (-32768) none none .none (.str .str)
  (.cons "Port" (-32768) none none .none (.prim .int32)
  (.cons "Rack" (-32768) none none .none (.str (.nstr (-32768)))
  Fields.nil))))))
  Fields.nil)))))

def S_ListOffsetsRequest : Ty :=
  .struct false (some 6) (.cons "ReplicaID" (-32768) none none (.int (-1)) (.prim .int32)
  (.cons "IsolationLevel" 2 none none .none (.prim .int8)
  (.cons "Topics" (-32768) none none .none (.arr .normal (.struct false (some 6) (.cons "Topic" (-32768) none none .none (.str .str)
  (.cons "Partitions" (-32768) none none .none (.arr .normal (.struct false (some 6) (.cons "Partition" (-32768) none none .none (.prim .int32)
  (.cons "CurrentLeaderEpoch" 4 none none (.int (-1)) (.prim .int32)
  (.cons "Timestamp" (-32768) none none .none (.prim .int64)
  (.cons "MaxNumOffsets" 0 (some 0) none (.int 1) (.prim .int32)
  Fields.nil))))))
  Fields.nil))))
  (.cons "TimeoutMillis" 10 none none (.int 30000) (.prim .int32)
  Fields.nil))))

def S_ListOffsetsResponse : Ty :=
  .struct false (some 6) (.cons "ThrottleMillis" 2 none none .none (.prim .int32)
  (.cons "Topics" (-32768) none none .none (.arr .normal (.struct false (some 6) (.cons "Topic" (-32768) none none .none (.str .str)
  (.cons "Partitions" (-32768) none none .none (.arr .normal (.struct false (some 6) (.cons "Partition" (-32768) none none .none (.prim .int32)
  (.cons "ErrorCode" (-32768) none none .none (.prim .int16)
  (.cons "OldStyleOffsets" 0 (some 0) none .none (.arr .normal (.prim .int64))
  (.cons "Timestamp" 1 none none (.int (-1)) (.prim .int64)
  (.cons "Offset" 1 none none (.int (-1)) (.prim .int64)
  (.cons "LeaderEpoch" 4 none none (.int (-1)) (.prim .int32)
  Fields.nil))))))))
  Fields.nil))))
  Fields.nil))

def S_MetadataRequest : Ty :=
  .struct false (some 9) (.cons "Topics" (-32768) none none .none (.arr (.nullable 1) (.struct false (some 9) (.cons "TopicID" 10 none none .none (.prim .uuid)
  (.cons "Topic" (-32768) none none .none (.str (.nstr 10))
  Fields.nil))))
  (.cons "AllowAutoTopicCreation" 4 none none .none (.prim .bool)
  (.cons "IncludeClusterAuthorizedOperations" 8 (some 10) none .none (.prim .bool)
  (.cons "IncludeTopicAuthorizedOperations" 8 none none .none (.prim .bool)
  Fields.nil))))

def S_MetadataResponse : Ty :=
  .struct false (some 9) (.cons "ThrottleMillis" 3 none none .none (.prim .int32)
  (.cons "Brokers" (-32768) none none .none (.arr .normal (.struct false (some 9) (.cons "NodeID" (-32768) none none .none (.prim .int32)
  (.cons "Host" (-32768) none none .none (.str .str)
  (.cons "Port" (-32768) none none .none (.prim .int32)
  (.cons "Rack" 1 none none .none (.str (.nstr (-32768)))
  Fields.nil))))))
  (.cons "ClusterID" 2 none none .none (.str (.nstr (-32768)))
  (.cons "ControllerID" 1 none none (.int (-1)) (.prim .int32)
  (.cons "Topics" (-32768) none none .none (.arr .normal (.struct false (some 9) (.cons "ErrorCode" (-32768) none none .none (.prim .int16)
  (.cons "Topic" (-32768) none none .none (.str (.nstr 12))
  (.cons "TopicID" 10 none none .none (.prim .uuid)
  (.cons "IsInternal" 1 none none .none (.prim .bool)
  (.cons "Partitions" (-32768) none none .none (.arr .normal (.struct false (some 9) (.cons "ErrorCode" (-32768) none none .none (.prim .int16)
  (.cons "Partition" (-32768) none none .none (.prim .int32)
  (.cons "Leader" (-32768) none none .none (.prim .int32)
  (.cons "LeaderEpoch" 7 none none (.int (-1)) (.prim .int32)
  (.cons "Replicas" (-32768) none none .none (.arr .normal (.prim .int32))
  (.cons "ISR" (-32768) none none .none (.arr .normal (.prim .int32))
  (.cons "OfflineReplicas" 5 none none .none (.arr .normal (.prim .int32))
  Fields.nil)))))))))
  (.cons "AuthorizedOperations" 8 none none (.int (-2147483648)) (.prim .int32)
  Fields.nil))))))))
  (.cons "AuthorizedOperations" 8 (some 10) none (.int (-2147483648)) (.prim .int32)
  (.cons "ErrorCode" 13 none none .none (.prim .int16)
  Fields.nil)))))))

def S_LeaderAndISRRequestTopicPartition : Ty :=
  .struct false (some 4) (.cons "Topic" 0 (some 1) none .none (.str .str)
  (.cons "Partition" (-32768) none none .none (.prim .int32)
  (.cons "ControllerEpoch" (-32768) none none .none (.prim .int32)
  (.cons "Leader" (-32768) none none .none (.prim .int32)
  (.cons "LeaderEpoch" (-32768) none none .none (.prim .int32)
  (.cons "ISR" (-32768) none none .none (.arr .normal (.prim .int32))
  (.cons "ZKVersion" (-32768) none none .none (.prim .int32)
  (.cons "Replicas" (-32768) none none .none (.arr .normal (.prim .int32))
  (.cons "AddingReplicas" 3 none none .none (.arr .normal (.prim .int32))
  (.cons "RemovingReplicas" 3 none none .none (.arr .normal (.prim .int32))
  (.cons "IsNew" 1 none none .none (.prim .bool)
  (.cons "LeaderRecoveryState" 6 none none .none (.prim .int8)
  Fields.nil))))))))))))

def S_LeaderAndISRResponseTopicPartition : Ty :=
  .struct false (some 4) (.cons "Topic" 0 (some 4) none .none (.str .str)
  (.cons "Partition" (-32768) none none .none (.prim .int32)
  (.cons "ErrorCode" (-32768) none none .none (.prim .int16)
  Fields.nil)))

def S_LeaderAndISRRequest : Ty :=
  .struct false (some 4) (.cons "ControllerID" (-32768) none none .none (.prim .int32)
  (.cons "IsKRaftController" 7 none none .none (.prim .bool)
  (.cons "ControllerEpoch" (-32768) none none .none (.prim .int32)
  (.cons "BrokerEpoch" 2 none none (.int (-1)) (.prim .int64)
  (.cons "Type" 5 none none .none (.prim .int8)
  (.cons "PartitionStates" 0 (some 1) none .none (.arr .normal (S_LeaderAndISRRequestTopicPartition))
  (.cons "TopicStates" 2 none none .none (.arr .normal (.struct false (some 4) (.cons "Topic" (-32768) none none .none (.str .str)
  (.cons "TopicID" 5 none none .none (.prim .uuid)
  (.cons "PartitionStates" (-32768) none none .none (.arr .normal (S_LeaderAndISRRequestTopicPartition))
  Fields.nil)))))
  (.cons "LiveLeaders" (-32768) none none .none (.arr .normal (.struct false (some 4) (.cons "BrokerID" (-32768) none none .none (.prim .int32)
  (.cons "Host" (-32768) none none .none (.str .str)
  (.cons "Port" (-32768) none none .none (.prim .int32)
  Fields.nil)))))
  Fields.nil))))))))

def S_LeaderAndISRResponse : Ty :=
  .struct false (some 4) (.cons "ErrorCode" (-32768) none none .none (.prim .int16)
  (.cons "Partitions" 0 (some 4) none .none (.arr .normal (S_LeaderAndISRResponseTopicPartition))
  (.cons "Topics" 5 none none .none (.arr .normal (.struct false (some 4) (.cons "TopicID" (-32768) none none .none (.prim .uuid)
  (.cons "Partitions" (-32768) none none .none (.arr .normal (S_LeaderAndISRResponseTopicPartition))
  Fields.nil))))
  Fields.nil)))

def S_StopReplicaRequest : Ty :=
  .struct false (some 2) (.cons "ControllerID" (-32768) none none .none (.prim .int32)
  (.cons "ControllerEpoch" (-32768) none none .none (.prim .int32)
  (.cons "IsKRaftController" 4 none none .none (.prim .bool)
  (.cons "BrokerEpoch" 1 none none (.int (-1)) (.prim .int64)
  (.cons "DeletePartitions" 0 (some 2) none .none (.prim .bool)
  (.cons "Topics" (-32768) none none .none (.arr .normal (.struct false (some 2) (.cons "Topic" (-32768) none none .none (.str .str)
  (.cons "Partition" 0 (some 0) none .none (.prim .int32)
  (.cons "Partitions" 1 (some 2) none .none (.arr .normal (.prim .int32))
  (.cons "PartitionStates" 3 none none .none (.arr .normal (.struct false (some 2) (.cons "Partition" (-32768) none none .none (.prim .int32)
  (.cons "LeaderEpoch" (-32768) none none (.int (-1)) (.prim .int32)
  (.cons "Delete" (-32768) none none .none (.prim .bool)
  Fields.nil)))))
  Fields.nil))))))
  Fields.nil))))))

def S_StopReplicaResponse : Ty :=
  .struct false (some 2) (.cons "ErrorCode" (-32768) none none .none (.prim .int16)
  (.cons "Partitions" (-32768) none none .none (.arr .normal (.struct false (some 2) (.cons "Topic" (-32768) none none .none (.str .str)
  (.cons "Partition" (-32768) none none .none (.prim .int32)
  (.cons "ErrorCode" (-32768) none none .none (.prim .int16)
  Fields.nil)))))
  Fields.nil))

def S_UpdateMetadataRequestTopicPartition : Ty :=
  .struct false (some 6) (.cons "Topic" 0 (some 4) none .none (.str .str)
  (.cons "Partition" (-32768) none none .none (.prim .int32)
  (.cons "ControllerEpoch" (-32768) none none .none (.prim .int32)
  (.cons "Leader" (-32768) none none .none (.prim .int32)
  (.cons "LeaderEpoch" (-32768) none none .none (.prim .int32)
  (.cons "ISR" (-32768) none none .none (.arr .normal (.prim .int32))
  (.cons "ZKVersion" (-32768) none none .none (.prim .int32)
  (.cons "Replicas" (-32768) none none .none (.arr .normal (.prim .int32))
  (.cons "OfflineReplicas" 4 none none .none (.arr .normal (.prim .int32))
  Fields.nil)))))))))

def S_UpdateMetadataRequest : Ty :=
  .struct false (some 6) (.cons "ControllerID" (-32768) none none .none (.prim .int32)
  (.cons "IsKRaftController" 8 none none .none (.prim .bool)
  (.cons "ControllerEpoch" (-32768) none none .none (.prim .int32)
  (.cons "BrokerEpoch" 5 none none (.int (-1)) (.prim .int64)
  (.cons "PartitionStates" 0 (some 4) none .none (.arr .normal (S_UpdateMetadataRequestTopicPartition))
  (.cons "TopicStates" 5 none none .none (.arr .normal (.struct false (some 6) (.cons "Topic" (-32768) none none .none (.str .str)
  (.cons "TopicID" 7 none none .none (.prim .uuid)
  (.cons "PartitionStates" (-32768) none none .none (.arr .normal (S_UpdateMetadataRequestTopicPartition))
  Fields.nil)))))
  (.cons "LiveBrokers" (-32768) none none .none (.arr .normal (.struct false (some 6) (.cons "ID" (-32768) none none .none (.prim .int32)
  (.cons "Host" 0 (some 0) none .none (.str .str)
  (.cons "Port" 0 (some 0) none .none (.prim .int32)
  (.cons "Endpoints" 1 none none .none (.arr .normal (.struct false (some 6) (.cons "Port" (-32768) none none .none (.prim .int32)
  (.cons "Host" (-32768) none none .none (.str .str)
  (.cons "ListenerName" 3 none none .none (.str .str)
  (.cons "SecurityProtocol" (-32768) none none .none (.prim .int16)
  Fields.nil))))))
  (.cons "Rack" 2 none none .none (.str (.nstr (-32768)))
  Fields.nil)))))))
  Fields.nil)))))))

def S_UpdateMetadataResponse : Ty :=
  .struct false (some 6) (.cons "ErrorCode" (-32768) none none .none (.prim .int16)
  Fields.nil)

def S_ControlledShutdownRequest : Ty :=
  .struct false (some 3) (.cons "BrokerID" (-32768) none none .none (.prim .int32)
  (.cons "BrokerEpoch" 2 none none (.int (-1)) (.prim .int64)
  Fields.nil))

def S_ControlledShutdownResponse : Ty :=
  .struct false (some 3) (.cons "ErrorCode" (-32768) none none .none (.prim .int16)
  (.cons "PartitionsRemaining" (-32768) none none .none (.arr .normal (.struct false (some 3) (.cons "Topic" (-32768) none none .none (.str .str)
  (.cons "Partition" (-32768) none none .none (.prim .int32)
  Fields.nil))))
  Fields.nil))

def S_OffsetCommitRequest : Ty :=
  .struct false (some 8) (.cons "Group" (-32768) none none .none (.str .str)
  (.cons "Generation" 1 none none (.int (-1)) (.prim .int32)
  (.cons "MemberID" 1 none none .none (.str .str)
  (.cons "InstanceID" 7 none none .none (.str (.nstr (-32768)))
  (.cons "RetentionTimeMillis" 2 (some 4) none (.int (-1)) (.prim .int64)
  (.cons "Topics" (-32768) none none .none (.arr .normal (.struct false (some 8) (.cons "Topic" 0 (some 9) none .none (.str .str)
  (.cons "TopicID" 10 none none .none (.prim .uuid)
  (.cons "Partitions" (-32768) none none .none (.arr .normal (.struct false (some 8) (.cons "Partition" (-32768) none none .none (.prim .int32)
  (.cons "Offset" (-32768) none none .none (.prim .int64)
  (.cons "Timestamp" 1 (some 1) none (.int (-1)) (.prim .int64)
  (.cons "LeaderEpoch" 6 none none (.int (-1)) (.prim .int32)
  (.cons "Metadata" (-32768) none none .none (.str (.nstr (-32768)))
  Fields.nil)))))))
  Fields.nil)))))
  Fields.nil))))))

def S_OffsetCommitResponse : Ty :=
  .struct false (some 8) (.cons "ThrottleMillis" 3 none none .none (.prim .int32)
  (.cons "Topics" (-32768) none none .none (.arr .normal (.struct false (some 8) (.cons "Topic" 0 (some 9) none .none (.str .str)
  (.cons "TopicID" 10 none none .none (.prim .uuid)
  (.cons "Partitions" (-32768) none none .none (.arr .normal (.struct false (some 8) (.cons "Partition" (-32768) none none .none (.prim .int32)
  (.cons "ErrorCode" (-32768) none none .none (.prim .int16)
  Fields.nil))))
  Fields.nil)))))
  Fields.nil))

def S_OffsetFetchRequest : Ty :=
  .struct false (some 6) (.cons "Group" 0 (some 7) none .none (.str .str)
  (.cons "Topics" 0 (some 7) none .none (.arr (.nullable 2) (.struct false (some 6) (.cons "Topic" (-32768) none none .none (.str .str)
  (.cons "Partitions" (-32768) none none .none (.arr .normal (.prim .int32))
  Fields.nil))))
  (.cons "Groups" 8 none none .none (.arr .normal (.struct false (some 6) (.cons "Group" (-32768) none none .none (.str .str)
  (.cons "MemberID" 9 none none .none (.str (.nstr (-32768)))
  (.cons "MemberEpoch" 9 none none (.int (-1)) (.prim .int32)
  (.cons "Topics" (-32768) none none .none (.arr (.nullable (-32768)) (.struct false (some 6) (.cons "Topic" 8 (some 9) none .none (.str .str)
  (.cons "TopicID" 10 none none .none (.prim .uuid)
  (.cons "Partitions" (-32768) none none .none (.arr .normal (.prim .int32))
  Fields.nil)))))
  Fields.nil))))))
  (.cons "RequireStable" 7 none none .none (.prim .bool)
  Fields.nil))))

def S_OffsetFetchResponse : Ty :=
  .struct false (some 6) (.cons "ThrottleMillis" 3 none none .none (.prim .int32)
  (.cons "Topics" 0 (some 7) none .none (.arr .normal (.struct false (some 6) (.cons "Topic" (-32768) none none .none (.str .str)
  (.cons "Partitions" (-32768) none none .none (.arr .normal (.struct false (some 6) (.cons "Partition" (-32768) none none .none (.prim .int32)
  (.cons "Offset" (-32768) none none .none (.prim .int64)
  (.cons "LeaderEpoch" 5 none none (.int (-1)) (.prim .int32)
  (.cons "Metadata" (-32768) none none .none (.str (.nstr (-32768)))
  (.cons "ErrorCode" (-32768) none none .none (.prim .int16)
  Fields.nil)))))))
  Fields.nil))))
  (.cons "ErrorCode" 2 (some 7) none .none (.prim .int16)
  (.cons "Groups" 8 none none .none (.arr .normal (.struct false (some 6) (.cons "Group" (-32768) none none .none (.str .str)
  (.cons "Topics" (-32768) none none .none (.arr .normal (.struct false (some 6) (.cons "Topic" 8 (some 9) none .none (.str .str)
  (.cons "TopicID" 10 none none .none (.prim .uuid)
  (.cons "Partitions" (-32768) none none .none (.arr .normal (.struct false (some 6) (.cons "Partition" (-32768) none none .none (.prim .int32)
  (.cons "Offset" (-32768) none none .none (.prim .int64)
  (.cons "LeaderEpoch" (-32768) none none (.int (-1)) (.prim .int32)
  (.cons "Metadata" (-32768) none none .none (.str (.nstr (-32768)))
  (.cons "ErrorCode" (-32768) none none .none (.prim .int16)
  Fields.nil)))))))
  Fields.nil)))))
  (.cons "ErrorCode" (-32768) none none .none (.prim .int16)
  Fields.nil)))))
  Fields.nil))))

def S_FindCoordinatorRequest : Ty :=
  .struct false (some 3) (.cons "CoordinatorKey" 0 (some 3) none .none (.str .str)
  (.cons "CoordinatorType" 1 none none .none (.prim .int8)
  (.cons "CoordinatorKeys" 4 none none .none (.arr .normal (.str .str))
  Fields.nil)))

def S_FindCoordinatorResponse : Ty :=
  .struct false (some 3) (.cons "ThrottleMillis" 1 none none .none (.prim .int32)
  (.cons "ErrorCode" 0 (some 3) none .none (.prim .int16)
  (.cons "ErrorMessage" 1 (some 3) none .none (.str (.nstr (-32768)))
  (.cons "NodeID" 0 (some 3) none .none (.prim .int32)
  (.cons "Host" 0 (some 3) none .none (.str .str)
  (.cons "Port" 0 (some 3) none .none (.prim .int32)
  (.cons "Coordinators" 4 none none .none (.arr .normal (.struct false (some 3) (.cons "Key" (-32768) none none .none (.str .str)
  (.cons "NodeID" (-32768) none none .none (.prim .int32)
  (.cons "Host" (-32768) none none .none (.str .str)
  (.cons "Port" (-32768) none none .none (.prim .int32)
  (.cons "ErrorCode" (-32768) none none .none (.prim .int16)
  (.cons "ErrorMessage" (-32768) none none .none (.str (.nstr (-32768)))
  Fields.nil))))))))
  Fields.nil)))))))

def S_JoinGroupRequest : Ty :=
  .struct false (some 6) (.cons "Group" (-32768) none none .none (.str .str)
  (.cons "SessionTimeoutMillis" (-32768) none none .none (.prim .int32)
  (.cons "RebalanceTimeoutMillis" 1 none none (.int (-1)) (.prim .int32)
  (.cons "MemberID" (-32768) none none .none (.str .str)
  (.cons "InstanceID" 5 none none .none (.str (.nstr (-32768)))
  (.cons "ProtocolType" (-32768) none none .none (.str .str)
  (.cons "Protocols" (-32768) none none .none (.arr .normal (.struct false (some 6) (.cons "Name" (-32768) none none .none (.str .str)
  (.cons "Metadata" (-32768) none none .none (.str .bytes)
  Fields.nil))))
  (.cons "Reason" 8 none none .none (.str (.nstr (-32768)))
  Fields.nil))))))))

def S_JoinGroupResponse : Ty :=
  .struct false (some 6) (.cons "ThrottleMillis" 2 none none .none (.prim .int32)
  (.cons "ErrorCode" (-32768) none none .none (.prim .int16)
  (.cons "Generation" (-32768) none none (.int (-1)) (.prim .int32)
  (.cons "ProtocolType" 7 none none .none (.str (.nstr (-32768)))
  (.cons "Protocol" (-32768) none none .none (.str (.nstr 7))
  (.cons "LeaderID" (-32768) none none .none (.str .str)
  (.cons "SkipAssignment" 9 none none .none (.prim .bool)
  (.cons "MemberID" (-32768) none none .none (.str .str)
  (.cons "Members" (-32768) none none .none (.arr .normal (.struct false (some 6) (.cons "MemberID" (-32768) none none .none (.str .str)
  (.cons "InstanceID" 5 none none .none (.str (.nstr (-32768)))
  (.cons "ProtocolMetadata" (-32768) none none .none (.str .bytes)
  Fields.nil)))))
  Fields.nil)))))))))

def S_HeartbeatRequest : Ty :=
  .struct false (some 4) (.cons "Group" (-32768) none none .none (.str .str)
  (.cons "Generation" (-32768) none none .none (.prim .int32)
  (.cons "MemberID" (-32768) none none .none (.str .str)
  (.cons "InstanceID" 3 none none .none (.str (.nstr (-32768)))
  Fields.nil))))

def S_HeartbeatResponse : Ty :=
  .struct false (some 4) (.cons "ThrottleMillis" 1 none none .none (.prim .int32)
  (.cons "ErrorCode" (-32768) none none .none (.prim .int16)
  Fields.nil))

def S_LeaveGroupRequest : Ty :=
  .struct false (some 4) (.cons "Group" (-32768) none none .none (.str .str)
  (.cons "MemberID" 0 (some 2) none .none (.str .str)
  (.cons "Members" 3 none none .none (.arr .normal (.struct false (some 4) (.cons "MemberID" (-32768) none none .none (.str .str)
  (.cons "InstanceID" (-32768) none none .none (.str (.nstr (-32768)))
  (.cons "Reason" 5 none none .none (.str (.nstr (-32768)))
  Fields.nil)))))
  Fields.nil)))

def S_LeaveGroupResponse : Ty :=
  .struct false (some 4) (.cons "ThrottleMillis" 1 none none .none (.prim .int32)
  (.cons "ErrorCode" (-32768) none none .none (.prim .int16)
  (.cons "Members" 3 none none .none (.arr .normal (.struct false (some 4) (.cons "MemberID" (-32768) none none .none (.str .str)
  (.cons "InstanceID" (-32768) none none .none (.str (.nstr (-32768)))
  (.cons "ErrorCode" (-32768) none none .none (.prim .int16)
  Fields.nil)))))
  Fields.nil)))

def S_SyncGroupRequest : Ty :=
  .struct false (some 4) (.cons "Group" (-32768) none none .none (.str .str)
  (.cons "Generation" (-32768) none none .none (.prim .int32)
  (.cons "MemberID" (-32768) none none .none (.str .str)
  (.cons "InstanceID" 3 none none .none (.str (.nstr (-32768)))
  (.cons "ProtocolType" 5 none none .none (.str (.nstr (-32768)))
  (.cons "Protocol" 5 none none .none (.str (.nstr (-32768)))
  (.cons "GroupAssignment" (-32768) none none .none (.arr .normal (.struct false (some 4) (.cons "MemberID" (-32768) none none .none (.str .str)
  (.cons "MemberAssignment" (-32768) none none .none (.str .bytes)
  Fields.nil))))
  Fields.nil)))))))

def S_SyncGroupResponse : Ty :=
  .struct false (some 4) (.cons "ThrottleMillis" 1 none none .none (.prim .int32)
  (.cons "ErrorCode" (-32768) none none .none (.prim .int16)
  (.cons "ProtocolType" 5 none none .none (.str (.nstr (-32768)))
  (.cons "Protocol" 5 none none .none (.str (.nstr (-32768)))
  (.cons "MemberAssignment" (-32768) none none .none (.str .bytes)
  Fields.nil)))))

def S_DescribeGroupsRequest : Ty :=
  .struct false (some 5) (.cons "Groups" (-32768) none none .none (.arr .normal (.str .str))
  (.cons "IncludeAuthorizedOperations" 3 none none .none (.prim .bool)
  Fields.nil))

def S_DescribeGroupsResponse : Ty :=
  .struct false (some 5) (.cons "ThrottleMillis" 1 none none .none (.prim .int32)
  (.cons "Groups" (-32768) none none .none (.arr .normal (.struct false (some 5) (.cons "ErrorCode" (-32768) none none .none (.prim .int16)
  (.cons "ErrorMessage" 6 none none .none (.str (.nstr (-32768)))
  (.cons "Group" (-32768) none none .none (.str .str)
  (.cons "State" (-32768) none none .none (.str .str)
  (.cons "ProtocolType" (-32768) none none .none (.str .str)
  (.cons "Protocol" (-32768) none none .none (.str .str)
  (.cons "Members" (-32768) none none .none (.arr .normal (.struct false (some 5) (.cons "MemberID" (-32768) none none .none (.str .str)
  (.cons "InstanceID" 4 none none .none (.str (.nstr (-32768)))
  (.cons "ClientID" (-32768) none none .none (.str .str)
  (.cons "ClientHost" (-32768) none none .none (.str .str)
  (.cons "ProtocolMetadata" (-32768) none none .none (.str .bytes)
  (.cons "MemberAssignment" (-32768) none none .none (.str .bytes)
  Fields.nil))))))))
  (.cons "AuthorizedOperations" 3 none none (.int (-2147483648)) (.prim .int32)
  Fields.nil))))))))))
  Fields.nil))

def S_ListGroupsRequest : Ty :=
  .struct false (some 3) (.cons "StatesFilter" 4 none none .none (.arr .normal (.str .str))
  (.cons "TypesFilter" 5 none none .none (.arr .normal (.str .str))
  Fields.nil))

def S_ListGroupsResponse : Ty :=
  .struct false (some 3) (.cons "ThrottleMillis" 1 none none .none (.prim .int32)
  (.cons "ErrorCode" (-32768) none none .none (.prim .int16)
  (.cons "Groups" (-32768) none none .none (.arr .normal (.struct false (some 3) (.cons "Group" (-32768) none none .none (.str .str)
  (.cons "ProtocolType" (-32768) none none .none (.str .str)
  (.cons "GroupState" 4 none none .none (.str .str)
  (.cons "GroupType" 5 none none .none (.str .str)
  Fields.nil))))))
  Fields.nil)))

def S_SASLHandshakeRequest : Ty :=
  .struct false none (.cons "Mechanism" (-32768) none none .none (.str .str)
  Fields.nil)

def S_SASLHandshakeResponse : Ty :=
  .struct false none (.cons "ErrorCode" (-32768) none none .none (.prim .int16)
  (.cons "SupportedMechanisms" (-32768) none none .none (.arr .normal (.str .str))
  Fields.nil))

def S_ApiVersionsRequest : Ty :=
  .struct false (some 3) (.cons "ClientSoftwareName" 3 none none .none (.str .str)
  (.cons "ClientSoftwareVersion" 3 none none .none (.str .str)
  Fields.nil))

def S_ApiVersionsResponse : Ty :=
  .struct false (some 3) (.cons "ErrorCode" (-32768) none none .none (.prim .int16)
  (.cons "ApiKeys" (-32768) none none .none (.arr .normal (.struct false (some 3) (.cons "ApiKey" (-32768) none none .none (.prim .int16)
  (.cons "MinVersion" (-32768) none none .none (.prim .int16)
  (.cons "MaxVersion" (-32768) none none .none (.prim .int16)
  Fields.nil)))))
  (.cons "ThrottleMillis" 1 none none .none (.prim .int32)
  (.cons "SupportedFeatures" (-32768) none (some 0) .none (.arr .normal (.struct false (some 3) (.cons "Name" (-32768) none none .none (.str .str)
  (.cons "MinVersion" (-32768) none none .none (.prim .int16)
  (.cons "MaxVersion" (-32768) none none .none (.prim .int16)
  Fields.nil)))))
  (.cons "FinalizedFeaturesEpoch" (-32768) none (some 1) (.int (-1)) (.prim .int64)
  (.cons "FinalizedFeatures" (-32768) none (some 2) .none (.arr .normal (.struct false (some 3) (.cons "Name" (-32768) none none .none (.str .str)
  (.cons "MaxVersionLevel" (-32768) none none .none (.prim .int16)
  (.cons "MinVersionLevel" (-32768) none none .none (.prim .int16)
  Fields.nil)))))
  (.cons "ZkMigrationReady" (-32768) none (some 3) .none (.prim .bool)
  Fields.nil)))))))

def S_CreateTopicsRequest : Ty :=
  .struct false (some 5) (.cons "Topics" (-32768) none none .none (.arr .normal (.struct false (some 5) (.cons "Topic" (-32768) none none .none (.str .str)
  (.cons "NumPartitions" (-32768) none none .none (.prim .int32)
  (.cons "ReplicationFactor" (-32768) none none .none (.prim .int16)
  (.cons "ReplicaAssignment" (-32768) none none .none (.arr .normal (.struct false (some 5) (.cons "Partition" (-32768) none none .none (.prim .int32)
  (.cons "Replicas" (-32768) none none .none (.arr .normal (.prim .int32))
  Fields.nil))))
  (.cons "Configs" (-32768) none none .none (.arr .normal (.struct false (some 5) (.cons "Name" (-32768) none none .none (.str .str)
  (.cons "Value" (-32768) none none .none (.str (.nstr (-32768)))
  Fields.nil))))
  Fields.nil)))))))
  (.cons "TimeoutMillis" (-32768) none none (.int 60000) (.prim .int32)
  (.cons "ValidateOnly" 1 none none .none (.prim .bool)
  Fields.nil)))

def S_CreateTopicsResponse : Ty :=
  .struct false (some 5) (.cons "ThrottleMillis" 2 none none .none (.prim .int32)
  (.cons "Topics" (-32768) none none .none (.arr .normal (.struct false (some 5) (.cons "Topic" (-32768) none none .none (.str .str)
  (.cons "TopicID" 7 none none .none (.prim .uuid)
  (.cons "ErrorCode" (-32768) none none .none (.prim .int16)
  (.cons "ErrorMessage" 1 none none .none (.str (.nstr (-32768)))
  (.cons "ConfigErrorCode" (-32768) none (some 0) .none (.prim .int16)
  (.cons "NumPartitions" 5 none none (.int (-1)) (.prim .int32)
  (.cons "ReplicationFactor" 5 none none (.int (-1)) (.prim .int16)
  (.cons "Configs" 5 none none .none (.arr (.nullable (-32768)) (.struct false (some 5) (.cons "Name" (-32768) none none .none (.str .str)
  (.cons "Value" (-32768) none none .none (.str (.nstr (-32768)))
  (.cons "ReadOnly" (-32768) none none .none (.prim .bool)
  (.cons "Source" (-32768) none none (.int (-1)) (.prim .int8)
  (.cons "IsSensitive" (-32768) none none .none (.prim .bool)
  Fields.nil)))))))
  Fields.nil))))))))))
  Fields.nil))

def S_DeleteTopicsRequest : Ty :=
  .struct false (some 4) (.cons "TopicNames" 0 (some 5) none .none (.arr .normal (.str .str))
  (.cons "Topics" 6 none none .none (.arr .normal (.struct false (some 4) (.cons "Topic" (-32768) none none .none (.str (.nstr (-32768)))
  (.cons "TopicID" (-32768) none none .none (.prim .uuid)
  Fields.nil))))
  (.cons "TimeoutMillis" (-32768) none none (.int 15000) (.prim .int32)
  Fields.nil)))

def S_DeleteTopicsResponse : Ty :=
  .struct false (some 4) (.cons "ThrottleMillis" 1 none none .none (.prim .int32)
  (.cons "Topics" (-32768) none none .none (.arr .normal (.struct false (some 4) (.cons "Topic" (-32768) none none .none (.str (.nstr 6))
  (.cons "TopicID" 6 none none .none (.prim .uuid)
  (.cons "ErrorCode" (-32768) none none .none (.prim .int16)
  (.cons "ErrorMessage" 5 none none .none (.str (.nstr (-32768)))
  Fields.nil))))))
  Fields.nil))

def S_DeleteRecordsRequest : Ty :=
  .struct false (some 2) (.cons "Topics" (-32768) none none .none (.arr .normal (.struct false (some 2) (.cons "Topic" (-32768) none none .none (.str .str)
  (.cons "Partitions" (-32768) none none .none (.arr .normal (.struct false (some 2) (.cons "Partition" (-32768) none none .none (.prim .int32)
  (.cons "Offset" (-32768) none none .none (.prim .int64)
  Fields.nil))))
  Fields.nil))))
  (.cons "TimeoutMillis" (-32768) none none (.int 15000) (.prim .int32)
  Fields.nil))

def S_DeleteRecordsResponse : Ty :=
  .struct false (some 2) (.cons "ThrottleMillis" (-32768) none none .none (.prim .int32)
  (.cons "Topics" (-32768) none none .none (.arr .normal (.struct false (some 2) (.cons "Topic" (-32768) none none .none (.str .str)
  (.cons "Partitions" (-32768) none none .none (.arr .normal (.struct false (some 2) (.cons "Partition" (-32768) none none .none (.prim .int32)
  (.cons "LowWatermark" (-32768) none none .none (.prim .int64)
  (.cons "ErrorCode" (-32768) none none .none (.prim .int16)
  Fields.nil)))))
  Fields.nil))))
  Fields.nil))

def S_InitProducerIDRequest : Ty :=
  .struct false (some 2) (.cons "TransactionalID" (-32768) none none .none (.str (.nstr (-32768)))
  (.cons "TransactionTimeoutMillis" (-32768) none none .none (.prim .int32)
  (.cons "ProducerID" 3 none none (.int (-1)) (.prim .int64)
  (.cons "ProducerEpoch" 3 none none (.int (-1)) (.prim .int16)
  Fields.nil))))

def S_InitProducerIDResponse : Ty :=
  .struct false (some 2) (.cons "ThrottleMillis" (-32768) none none .none (.prim .int32)
  (.cons "ErrorCode" (-32768) none none .none (.prim .int16)
  (.cons "ProducerID" (-32768) none none (.int (-1)) (.prim .int64)
  (.cons "ProducerEpoch" (-32768) none none .none (.prim .int16)
  Fields.nil))))

def S_OffsetForLeaderEpochRequest : Ty :=
  .struct false (some 4) (.cons "ReplicaID" 3 none none (.int (-2)) (.prim .int32)
  (.cons "Topics" (-32768) none none .none (.arr .normal (.struct false (some 4) (.cons "Topic" (-32768) none none .none (.str .str)
  (.cons "Partitions" (-32768) none none .none (.arr .normal (.struct false (some 4) (.cons "Partition" (-32768) none none .none (.prim .int32)
  (.cons "CurrentLeaderEpoch" 2 none none (.int (-1)) (.prim .int32)
  (.cons "LeaderEpoch" (-32768) none none .none (.prim .int32)
  Fields.nil)))))
  Fields.nil))))
  Fields.nil))

def S_OffsetForLeaderEpochResponse : Ty :=
  .struct false (some 4) (.cons "ThrottleMillis" 2 none none .none (.prim .int32)
  (.cons "Topics" (-32768) none none .none (.arr .normal (.struct false (some 4) (.cons "Topic" (-32768) none none .none (.str .str)
  (.cons "Partitions" (-32768) none none .none (.arr .normal (.struct false (some 4) (.cons "ErrorCode" (-32768) none none .none (.prim .int16)
  (.cons "Partition" (-32768) none none .none (.prim .int32)
  (.cons "LeaderEpoch" 1 none none (.int (-1)) (.prim .int32)
  (.cons "EndOffset" (-32768) none none (.int (-1)) (.prim .int64)
  Fields.nil))))))
  Fields.nil))))
  Fields.nil))

def S_AddPartitionsToTxnRequest : Ty :=
  .struct false (some 3) (.cons "TransactionalID" 0 (some 3) none .none (.str .str)
  (.cons "ProducerID" 0 (some 3) none .none (.prim .int64)
  (.cons "ProducerEpoch" 0 (some 3) none .none (.prim .int16)
  (.cons "Topics" 0 (some 3) none .none (.arr .normal (.struct false (some 3) (.cons "Topic" (-32768) none none .none (.str .str)
  (.cons "Partitions" (-32768) none none .none (.arr .normal (.prim .int32))
  Fields.nil))))
  (.cons "Transactions" 4 none none .none (.arr .normal (.struct false (some 3) (.cons "TransactionalID" (-32768) none none .none (.str .str)
  (.cons "ProducerID" (-32768) none none .none (.prim .int64)
  (.cons "ProducerEpoch" (-32768) none none .none (.prim .int16)
  (.cons "VerifyOnly" (-32768) none none .none (.prim .bool)
  (.cons "Topics" (-32768) none none .none (.arr .normal (.struct false (some 3) (.cons "Topic" (-32768) none none .none (.str .str)
  (.cons "Partitions" (-32768) none none .none (.arr .normal (.prim .int32))
  Fields.nil))))
  Fields.nil)))))))
  Fields.nil)))))

def S_AddPartitionsToTxnResponse : Ty :=
  .struct false (some 3) (.cons "ThrottleMillis" (-32768) none none .none (.prim .int32)
  (.cons "ErrorCode" 4 none none .none (.prim .int16)
  (.cons "Transactions" 4 none none .none (.arr .normal (.struct false (some 3) (.cons "TransactionalID" (-32768) none none .none (.str .str)
  (.cons "Topics" (-32768) none none .none (.arr .normal (.struct false (some 3) (.cons "Topic" (-32768) none none .none (.str .str)
  (.cons "Partitions" (-32768) none none .none (.arr .normal (.struct false (some 3) (.cons "Partition" (-32768) none none .none (.prim .int32)
  (.cons "ErrorCode" (-32768) none none .none (.prim .int16)
  Fields.nil))))
  Fields.nil))))
  Fields.nil))))
  (.cons "Topics" 0 (some 3) none .none (.arr .normal (.struct false (some 3) (.cons "Topic" (-32768) none none .none (.str .str)
  (.cons "Partitions" (-32768) none none .none (.arr .normal (.struct false (some 3) (.cons "Partition" (-32768) none none .none (.prim .int32)
  (.cons "ErrorCode" (-32768) none none .none (.prim .int16)
  Fields.nil))))
  Fields.nil))))
  Fields.nil))))

def S_AddOffsetsToTxnRequest : Ty :=
  .struct false (some 3) (.cons "TransactionalID" (-32768) none none .none (.str .str)
  (.cons "ProducerID" (-32768) none none .none (.prim .int64)
  (.cons "ProducerEpoch" (-32768) none none .none (.prim .int16)
  (.cons "Group" (-32768) none none .none (.str .str)
  Fields.nil))))

def S_AddOffsetsToTxnResponse : Ty :=
  .struct false (some 3) (.cons "ThrottleMillis" (-32768) none none .none (.prim .int32)
  (.cons "ErrorCode" (-32768) none none .none (.prim .int16)
  Fields.nil))

def S_EndTxnRequest : Ty :=
  .struct false (some 3) (.cons "TransactionalID" (-32768) none none .none (.str .str)
  (.cons "ProducerID" (-32768) none none .none (.prim .int64)
  (.cons "ProducerEpoch" (-32768) none none .none (.prim .int16)
  (.cons "Commit" (-32768) none none .none (.prim .bool)
  Fields.nil))))

def S_EndTxnResponse : Ty :=
  .struct false (some 3) (.cons "ThrottleMillis" (-32768) none none .none (.prim .int32)
  (.cons "ErrorCode" (-32768) none none .none (.prim .int16)
  (.cons "ProducerID" 5 none none (.int (-1)) (.prim .int64)
  (.cons "ProducerEpoch" 5 none none (.int (-1)) (.prim .int16)
  Fields.nil))))

def S_WriteTxnMarkersRequest : Ty :=
  .struct false (some 1) (.cons "Markers" (-32768) none none .none (.arr .normal (.struct false (some 1) (.cons "ProducerID" (-32768) none none .none (.prim .int64)
  (.cons "ProducerEpoch" (-32768) none none .none (.prim .int16)
  (.cons "Committed" (-32768) none none .none (.prim .bool)
  (.cons "Topics" (-32768) none none .none (.arr .normal (.struct false (some 1) (.cons "Topic" (-32768) none none .none (.str .str)
  (.cons "Partitions" (-32768) none none .none (.arr .normal (.prim .int32))
  Fields.nil))))
  (.cons "CoordinatorEpoch" (-32768) none none .none (.prim .int32)
  (.cons "TransactionVersion" 2 none none .none (.prim .int8)
  Fields.nil))))))))
  Fields.nil)

def S_WriteTxnMarkersResponse : Ty :=
  .struct false (some 1) (.cons "Markers" (-32768) none none .none (.arr .normal (.struct false (some 1) (.cons "ProducerID" (-32768) none none .none (.prim .int64)
  (.cons "Topics" (-32768) none none .none (.arr .normal (.struct false (some 1) (.cons "Topic" (-32768) none none .none (.str .str)
  (.cons "Partitions" (-32768) none none .none (.arr .normal (.struct false (some 1) (.cons "Partition" (-32768) none none .none (.prim .int32)
  (.cons "ErrorCode" (-32768) none none .none (.prim .int16)
  Fields.nil))))
  Fields.nil))))
  Fields.nil))))
  Fields.nil)

def S_TxnOffsetCommitRequest : Ty :=
  .struct false (some 3) (.cons "TransactionalID" (-32768) none none .none (.str .str)
  (.cons "Group" (-32768) none none .none (.str .str)
  (.cons "ProducerID" (-32768) none none .none (.prim .int64)
  (.cons "ProducerEpoch" (-32768) none none .none (.prim .int16)
  (.cons "Generation" 3 none none (.int (-1)) (.prim .int32)
  (.cons "MemberID" 3 none none .none (.str .str)
  (.cons "InstanceID" 3 none none .none (.str (.nstr (-32768)))
  (.cons "Topics" (-32768) none none .none (.arr .normal (.struct false (some 3) (.cons "Topic" (-32768) none none .none (.str .str)
  (.cons "Partitions" (-32768) none none .none (.arr .normal (.struct false (some 3) (.cons "Partition" (-32768) none none .none (.prim .int32)
  (.cons "Offset" (-32768) none none .none (.prim .int64)
  (.cons "LeaderEpoch" 2 none none (.int (-1)) (.prim .int32)
  (.cons "Metadata" (-32768) none none .none (.str (.nstr (-32768)))
  Fields.nil))))))
  Fields.nil))))
  Fields.nil))))))))

def S_TxnOffsetCommitResponse : Ty :=
  .struct false (some 3) (.cons "ThrottleMillis" (-32768) none none .none (.prim .int32)
  (.cons "Topics" (-32768) none none .none (.arr .normal (.struct false (some 3) (.cons "Topic" (-32768) none none .none (.str .str)
  (.cons "Partitions" (-32768) none none .none (.arr .normal (.struct false (some 3) (.cons "Partition" (-32768) none none .none (.prim .int32)
  (.cons "ErrorCode" (-32768) none none .none (.prim .int16)
  Fields.nil))))
  Fields.nil))))
  Fields.nil))

def S_DescribeACLsRequest : Ty :=
  .struct false (some 2) (.cons "ResourceType" (-32768) none none .none (.prim .int8)
  (.cons "ResourceName" (-32768) none none .none (.str (.nstr (-32768)))
  (.cons "ResourcePatternType" 1 none none (.int 3) (.prim .int8)
  (.cons "Principal" (-32768) none none .none (.str (.nstr (-32768)))
  (.cons "Host" (-32768) none none .none (.str (.nstr (-32768)))
  (.cons "Operation" (-32768) none none .none (.prim .int8)
  (.cons "PermissionType" (-32768) none none .none (.prim .int8)
  Fields.nil)))))))

def S_DescribeACLsResponse : Ty :=
  .struct false (some 2) (.cons "ThrottleMillis" (-32768) none none .none (.prim .int32)
  (.cons "ErrorCode" (-32768) none none .none (.prim .int16)
  (.cons "ErrorMessage" (-32768) none none .none (.str (.nstr (-32768)))
  (.cons "Resources" (-32768) none none .none (.arr .normal (.struct false (some 2) (.cons "ResourceType" (-32768) none none .none (.prim .int8)
  (.cons "ResourceName" (-32768) none none .none (.str .str)
  (.cons "ResourcePatternType" 1 none none (.int 3) (.prim .int8)
  (.cons "ACLs" (-32768) none none .none (.arr .normal (.struct false (some 2) (.cons "Principal" (-32768) none none .none (.str .str)
  (.cons "Host" (-32768) none none .none (.str .str)
  (.cons "Operation" (-32768) none none .none (.prim .int8)
  (.cons "PermissionType" (-32768) none none .none (.prim .int8)
  Fields.nil))))))
  Fields.nil))))))
  Fields.nil))))

def S_CreateACLsRequest : Ty :=
  .struct false (some 2) (.cons "Creations" (-32768) none none .none (.arr .normal (.struct false (some 2) (.cons "ResourceType" (-32768) none none .none (.prim .int8)
  (.cons "ResourceName" (-32768) none none .none (.str .str)
  (.cons "ResourcePatternType" 1 none none (.int 3) (.prim .int8)
  (.cons "Principal" (-32768) none none .none (.str .str)
  (.cons "Host" (-32768) none none .none (.str .str)
  (.cons "Operation" (-32768) none none .none (.prim .int8)
  (.cons "PermissionType" (-32768) none none .none (.prim .int8)
  Fields.nil)))))))))
  Fields.nil)

def S_CreateACLsResponse : Ty :=
  .struct false (some 2) (.cons "ThrottleMillis" (-32768) none none .none (.prim .int32)
  (.cons "Results" (-32768) none none .none (.arr .normal (.struct false (some 2) (.cons "ErrorCode" (-32768) none none .none (.prim .int16)
  (.cons "ErrorMessage" (-32768) none none .none (.str (.nstr (-32768)))
  Fields.nil))))
  Fields.nil))

def S_DeleteACLsRequest : Ty :=
  .struct false (some 2) (.cons "Filters" (-32768) none none .none (.arr .normal (.struct false (some 2) (.cons "ResourceType" (-32768) none none .none (.prim .int8)
  (.cons "ResourceName" (-32768) none none .none (.str (.nstr (-32768)))
  (.cons "ResourcePatternType" 1 none none (.int 3) (.prim .int8)
  (.cons "Principal" (-32768) none none .none (.str (.nstr (-32768)))
  (.cons "Host" (-32768) none none .none (.str (.nstr (-32768)))
  (.cons "Operation" (-32768) none none .none (.prim .int8)
  (.cons "PermissionType" (-32768) none none .none (.prim .int8)
  Fields.nil)))))))))
  Fields.nil)

def S_DeleteACLsResponse : Ty :=
  .struct false (some 2) (.cons "ThrottleMillis" (-32768) none none .none (.prim .int32)
  (.cons "Results" (-32768) none none .none (.arr .normal (.struct false (some 2) (.cons "ErrorCode" (-32768) none none .none (.prim .int16)
  (.cons "ErrorMessage" (-32768) none none .none (.str (.nstr (-32768)))
  (.cons "MatchingACLs" (-32768) none none .none (.arr .normal (.struct false (some 2) (.cons "ErrorCode" (-32768) none none .none (.prim .int16)
  (.cons "ErrorMessage" (-32768) none none .none (.str (.nstr (-32768)))
  (.cons "ResourceType" (-32768) none none .none (.prim .int8)
  (.cons "ResourceName" (-32768) none none .none (.str .str)
  (.cons "ResourcePatternType" 1 none none (.int 3) (.prim .int8)
  (.cons "Principal" (-32768) none none .none (.str .str)
  (.cons "Host" (-32768) none none .none (.str .str)
  (.cons "Operation" (-32768) none none .none (.prim .int8)
  (.cons "PermissionType" (-32768) none none .none (.prim .int8)
  Fields.nil)))))))))))
  Fields.nil)))))
  Fields.nil))

def S_DescribeConfigsRequest : Ty :=
  .struct false (some 4) (.cons "Resources" (-32768) none none .none (.arr .normal (.struct false (some 4) (.cons "ResourceType" (-32768) none none .none (.prim .int8)
  (.cons "ResourceName" (-32768) none none .none (.str .str)
  (.cons "ConfigNames" (-32768) none none .none (.arr (.nullable (-32768)) (.str .str))
  Fields.nil)))))
  (.cons "IncludeSynonyms" 1 none none .none (.prim .bool)
  (.cons "IncludeDocumentation" 3 none none .none (.prim .bool)
  Fields.nil)))

def S_DescribeConfigsResponse : Ty :=
  .struct false (some 4) (.cons "ThrottleMillis" (-32768) none none .none (.prim .int32)
  (.cons "Resources" (-32768) none none .none (.arr .normal (.struct false (some 4) (.cons "ErrorCode" (-32768) none none .none (.prim .int16)
  (.cons "ErrorMessage" (-32768) none none .none (.str (.nstr (-32768)))
  (.cons "ResourceType" (-32768) none none .none (.prim .int8)
  (.cons "ResourceName" (-32768) none none .none (.str .str)
  (.cons "Configs" (-32768) none none .none (.arr .normal (.struct false (some 4) (.cons "Name" (-32768) none none .none (.str .str)
  (.cons "Value" (-32768) none none .none (.str (.nstr (-32768)))
  (.cons "ReadOnly" (-32768) none none .none (.prim .bool)
  (.cons "IsDefault" 0 (some 0) none .none (.prim .bool)
  (.cons "Source" 1 none none (.int (-1)) (.prim .int8)
  (.cons "IsSensitive" (-32768) none none .none (.prim .bool)
  (.cons "ConfigSynonyms" 1 none none .none (.arr .normal (.struct false (some 4) (.cons "Name" (-32768) none none .none (.str .str)
  (.cons "Value" (-32768) none none .none (.str (.nstr (-32768)))
  (.cons "Source" (-32768) none none .none (.prim .int8)
  Fields.nil)))))
  (.cons "ConfigType" 3 none none .none (.prim .int8)
  (.cons "Documentation" 3 none none .none (.str (.nstr (-32768)))
  Fields.nil)))))))))))
  Fields.nil)))))))
  Fields.nil))

def S_AlterConfigsRequest : Ty :=
  .struct false (some 2) (.cons "Resources" (-32768) none none .none (.arr .normal (.struct false (some 2) (.cons "ResourceType" (-32768) none none .none (.prim .int8)
  (.cons "ResourceName" (-32768) none none .none (.str .str)
  (.cons "Configs" (-32768) none none .none (.arr .normal (.struct false (some 2) (.cons "Name" (-32768) none none .none (.str .str)
  (.cons "Value" (-32768) none none .none (.str (.nstr (-32768)))
  Fields.nil))))
  Fields.nil)))))
  (.cons "ValidateOnly" (-32768) none none .none (.prim .bool)
  Fields.nil))

def S_AlterConfigsResponse : Ty :=
  .struct false (some 2) (.cons "ThrottleMillis" (-32768) none none .none (.prim .int32)
  (.cons "Resources" (-32768) none none .none (.arr .normal (.struct false (some 2) (.cons "ErrorCode" (-32768) none none .none (.prim .int16)
  (.cons "ErrorMessage" (-32768) none none .none (.str (.nstr (-32768)))
  (.cons "ResourceType" (-32768) none none .none (.prim .int8)
  (.cons "ResourceName" (-32768) none none .none (.str .str)
  Fields.nil))))))
  Fields.nil))

def S_AlterReplicaLogDirsRequest : Ty :=
  .struct false (some 2) (.cons "Dirs" (-32768) none none .none (.arr .normal (.struct false (some 2) (.cons "Dir" (-32768) none none .none (.str .str)
  (.cons "Topics" (-32768) none none .none (.arr .normal (.struct false (some 2) (.cons "Topic" (-32768) none none .none (.str .str)
  (.cons "Partitions" (-32768) none none .none (.arr .normal (.prim .int32))
  Fields.nil))))
  Fields.nil))))
  Fields.nil)

def S_AlterReplicaLogDirsResponse : Ty :=
  .struct false (some 2) (.cons "ThrottleMillis" (-32768) none none .none (.prim .int32)
  (.cons "Topics" (-32768) none none .none (.arr .normal (.struct false (some 2) (.cons "Topic" (-32768) none none .none (.str .str)
  (.cons "Partitions" (-32768) none none .none (.arr .normal (.struct false (some 2) (.cons "Partition" (-32768) none none .none (.prim .int32)
  (.cons "ErrorCode" (-32768) none none .none (.prim .int16)
  Fields.nil))))
  Fields.nil))))
  Fields.nil))

def S_DescribeLogDirsRequest : Ty :=
  .struct false (some 2) (.cons "Topics" (-32768) none none .none (.arr (.nullable (-32768)) (.struct false (some 2) (.cons "Topic" (-32768) none none .none (.str .str)
  (.cons "Partitions" (-32768) none none .none (.arr .normal (.prim .int32))
  Fields.nil))))
  Fields.nil)

def S_DescribeLogDirsResponse : Ty :=
  .struct false (some 2) (.cons "ThrottleMillis" (-32768) none none .none (.prim .int32)
  (.cons "ErrorCode" 3 none none .none (.prim .int16)
  (.cons "Dirs" (-32768) none none .none (.arr .normal (.struct false (some 2) (.cons "ErrorCode" (-32768) none none .none (.prim .int16)
  (.cons "Dir" (-32768) none none .none (.str .str)
  (.cons "Topics" (-32768) none none .none (.arr .normal (.struct false (some 2) (.cons "Topic" (-32768) none none .none (.str .str)
  (.cons "Partitions" (-32768) none none .none (.arr .normal (.struct false (some 2) (.cons "Partition" (-32768) none none .none (.prim .int32)
  (.cons "Size" (-32768) none none .none (.prim .int64)
  (.cons "OffsetLag" (-32768) none none .none (.prim .int64)
  (.cons "IsFuture" (-32768) none none .none (.prim .bool)
  Fields.nil))))))
  Fields.nil))))
  (.cons "TotalBytes" 4 none none (.int (-1)) (.prim .int64)
  (.cons "UsableBytes" 4 none none (.int (-1)) (.prim .int64)
  Fields.nil)))))))
  Fields.nil)))

def S_SASLAuthenticateRequest : Ty :=
  .struct false (some 2) (.cons "SASLAuthBytes" (-32768) none none .none (.str .bytes)
  Fields.nil)

def S_SASLAuthenticateResponse : Ty :=
  .struct false (some 2) (.cons "ErrorCode" (-32768) none none .none (.prim .int16)
  (.cons "ErrorMessage" (-32768) none none .none (.str (.nstr (-32768)))
  (.cons "SASLAuthBytes" (-32768) none none .none (.str .bytes)
  (.cons "SessionLifetimeMillis" 1 none none .none (.prim .int64)
  Fields.nil))))

def S_CreatePartitionsRequest : Ty :=
  .struct false (some 2) (.cons "Topics" (-32768) none none .none (.arr .normal (.struct false (some 2) (.cons "Topic" (-32768) none none .none (.str .str)
  (.cons "Count" (-32768) none none .none (.prim .int32)
  (.cons "Assignment" (-32768) none none .none (.arr (.nullable (-32768)) (.struct false (some 2) (.cons "Replicas" (-32768) none none .none (.arr .normal (.prim .int32))
  Fields.nil)))
  Fields.nil)))))
  (.cons "TimeoutMillis" (-32768) none none (.int 15000) (.prim .int32)
  (.cons "ValidateOnly" (-32768) none none .none (.prim .bool)
  Fields.nil)))

def S_CreatePartitionsResponse : Ty :=
  .struct false (some 2) (.cons "ThrottleMillis" (-32768) none none .none (.prim .int32)
  (.cons "Topics" (-32768) none none .none (.arr .normal (.struct false (some 2) (.cons "Topic" (-32768) none none .none (.str .str)
  (.cons "ErrorCode" (-32768) none none .none (.prim .int16)
  (.cons "ErrorMessage" (-32768) none none .none (.str (.nstr (-32768)))
  Fields.nil)))))
  Fields.nil))

def S_CreateDelegationTokenRequest : Ty :=
  .struct false (some 2) (.cons "OwnerPrincipalType" 3 none none .none (.str (.nstr (-32768)))
  (.cons "OwnerPrincipalName" 3 none none .none (.str (.nstr (-32768)))
  (.cons "Renewers" (-32768) none none .none (.arr .normal (.struct false (some 2) (.cons "PrincipalType" (-32768) none none .none (.str .str)
  (.cons "PrincipalName" (-32768) none none .none (.str .str)
  Fields.nil))))
  (.cons "MaxLifetimeMillis" (-32768) none none .none (.prim .int64)
  Fields.nil))))

def S_CreateDelegationTokenResponse : Ty :=
  .struct false (some 2) (.cons "ErrorCode" (-32768) none none .none (.prim .int16)
  (.cons "PrincipalType" (-32768) none none .none (.str .str)
  (.cons "PrincipalName" (-32768) none none .none (.str .str)
  (.cons "TokenRequesterPrincipalType" 3 none none .none (.str .str)
  (.cons "TokenRequesterPrincipalName" 3 none none .none (.str .str)
  (.cons "IssueTimestamp" (-32768) none none .none (.prim .int64)
  (.cons "ExpiryTimestamp" (-32768) none none .none (.prim .int64)
  (.cons "MaxTimestamp" (-32768) none none .none (.prim .int64)
  (.cons "TokenID" (-32768) none none .none (.str .str)
  (.cons "HMAC" (-32768) none none .none (.str .bytes)
  (.cons "ThrottleMillis" (-32768) none none .none (.prim .int32)
  Fields.nil)))))))))))

def S_RenewDelegationTokenRequest : Ty :=
  .struct false (some 2) (.cons "HMAC" (-32768) none none .none (.str .bytes)
  (.cons "RenewTimeMillis" (-32768) none none .none (.prim .int64)
  Fields.nil))

def S_RenewDelegationTokenResponse : Ty :=
  .struct false (some 2) (.cons "ErrorCode" (-32768) none none .none (.prim .int16)
  (.cons "ExpiryTimestamp" (-32768) none none .none (.prim .int64)
  (.cons "ThrottleMillis" (-32768) none none .none (.prim .int32)
  Fields.nil)))

def S_ExpireDelegationTokenRequest : Ty :=
  .struct false (some 2) (.cons "HMAC" (-32768) none none .none (.str .bytes)
  (.cons "ExpiryPeriodMillis" (-32768) none none .none (.prim .int64)
  Fields.nil))

def S_ExpireDelegationTokenResponse : Ty :=
  .struct false (some 2) (.cons "ErrorCode" (-32768) none none .none (.prim .int16)
  (.cons "ExpiryTimestamp" (-32768) none none .none (.prim .int64)
  (.cons "ThrottleMillis" (-32768) none none .none (.prim .int32)
  Fields.nil)))

def S_DescribeDelegationTokenRequest : Ty :=
  .struct false (some 2) (.cons "Owners" (-32768) none none .none (.arr (.nullable (-32768)) (.struct false (some 2) (.cons "PrincipalType" (-32768) none none .none (.str .str)
  (.cons "PrincipalName" (-32768) none none .none (.str .str)
  Fields.nil))))
  Fields.nil)

def S_DescribeDelegationTokenResponse : Ty :=
  .struct false (some 2) (.cons "ErrorCode" (-32768) none none .none (.prim .int16)
  (.cons "TokenDetails" (-32768) none none .none (.arr .normal (.struct false (some 2) (.cons "PrincipalType" (-32768) none none .none (.str .str)
  (.cons "PrincipalName" (-32768) none none .none (.str .str)
  (.cons "TokenRequesterPrincipalType" 3 none none .none (.str .str)
  (.cons "TokenRequesterPrincipalName" 3 none none .none (.str .str)
  (.cons "IssueTimestamp" (-32768) none none .none (.prim .int64)
  (.cons "ExpiryTimestamp" (-32768) none none .none (.prim .int64)
  (.cons "MaxTimestamp" (-32768) none none .none (.prim .int64)
  (.cons "TokenID" (-32768) none none .none (.str .str)
  (.cons "HMAC" (-32768) none none .none (.str .bytes)
  (.cons "Renewers" (-32768) none none .none (.arr .normal (.struct false (some 2) (.cons "PrincipalType" (-32768) none none .none (.str .str)
  (.cons "PrincipalName" (-32768) none none .none (.str .str)
  Fields.nil))))
  Fields.nil))))))))))))
  (.cons "ThrottleMillis" (-32768) none none .none (.prim .int32)
  Fields.nil)))

def S_DeleteGroupsRequest : Ty :=
  .struct false (some 2) (.cons "Groups" (-32768) none none .none (.arr .normal (.str .str))
  Fields.nil)

def S_DeleteGroupsResponse : Ty :=
  .struct false (some 2) (.cons "ThrottleMillis" (-32768) none none .none (.prim .int32)
  (.cons "Groups" (-32768) none none .none (.arr .normal (.struct false (some 2) (.cons "Group" (-32768) none none .none (.str .str)
  (.cons "ErrorCode" (-32768) none none .none (.prim .int16)
  Fields.nil))))
  Fields.nil))

def S_ElectLeadersRequest : Ty :=
  .struct false (some 2) (.cons "ElectionType" 1 none none .none (.prim .int8)
  (.cons "Topics" (-32768) none none .none (.arr (.nullable (-32768)) (.struct false (some 2) (.cons "Topic" (-32768) none none .none (.str .str)
  (.cons "Partitions" (-32768) none none .none (.arr .normal (.prim .int32))
  Fields.nil))))
  (.cons "TimeoutMillis" (-32768) none none (.int 60000) (.prim .int32)
  Fields.nil)))

def S_ElectLeadersResponse : Ty :=
  .struct false (some 2) (.cons "ThrottleMillis" (-32768) none none .none (.prim .int32)
  (.cons "ErrorCode" 1 none none .none (.prim .int16)
  (.cons "Topics" (-32768) none none .none (.arr .normal (.struct false (some 2) (.cons "Topic" (-32768) none none .none (.str .str)
  (.cons "Partitions" (-32768) none none .none (.arr .normal (.struct false (some 2) (.cons "Partition" (-32768) none none .none (.prim .int32)
  (.cons "ErrorCode" (-32768) none none .none (.prim .int16)
  (.cons "ErrorMessage" (-32768) none none .none (.str (.nstr (-32768)))
  Fields.nil)))))
  Fields.nil))))
  Fields.nil)))

def S_IncrementalAlterConfigsRequest : Ty :=
  .struct false (some 1) (.cons "Resources" (-32768) none none .none (.arr .normal (.struct false (some 1) (.cons "ResourceType" (-32768) none none .none (.prim .int8)
  (.cons "ResourceName" (-32768) none none .none (.str .str)
  (.cons "Configs" (-32768) none none .none (.arr .normal (.struct false (some 1) (.cons "Name" (-32768) none none .none (.str .str)
  (.cons "Op" (-32768) none none .none (.prim .int8)
  (.cons "Value" (-32768) none none .none (.str (.nstr (-32768)))
  Fields.nil)))))
  Fields.nil)))))
  (.cons "ValidateOnly" (-32768) none none .none (.prim .bool)
  Fields.nil))

def S_IncrementalAlterConfigsResponse : Ty :=
  .struct false (some 1) (.cons "ThrottleMillis" (-32768) none none .none (.prim .int32)
  (.cons "Resources" (-32768) none none .none (.arr .normal (.struct false (some 1) (.cons "ErrorCode" (-32768) none none .none (.prim .int16)
  (.cons "ErrorMessage" (-32768) none none .none (.str (.nstr (-32768)))
  (.cons "ResourceType" (-32768) none none .none (.prim .int8)
  (.cons "ResourceName" (-32768) none none .none (.str .str)
  Fields.nil))))))
  Fields.nil))

def S_AlterPartitionAssignmentsRequest : Ty :=
  .struct false (some 0) (.cons "TimeoutMillis" (-32768) none none (.int 60000) (.prim .int32)
  (.cons "AllowReplicationFactorChange" 1 none none (.int 1) (.prim .bool)
  (.cons "Topics" (-32768) none none .none (.arr .normal (.struct false (some 0) (.cons "Topic" (-32768) none none .none (.str .str)
  (.cons "Partitions" (-32768) none none .none (.arr .normal (.struct false (some 0) (.cons "Partition" (-32768) none none .none (.prim .int32)
  (.cons "Replicas" (-32768) none none .none (.arr (.nullable (-32768)) (.prim .int32))
  Fields.nil))))
  Fields.nil))))
  Fields.nil)))

def S_AlterPartitionAssignmentsResponse : Ty :=
  .struct false (some 0) (.cons "ThrottleMillis" (-32768) none none .none (.prim .int32)
  (.cons "AllowReplicationFactorChange" 1 none none (.int 1) (.prim .bool)
  (.cons "ErrorCode" (-32768) none none .none (.prim .int16)
  (.cons "ErrorMessage" (-32768) none none .none (.str (.nstr (-32768)))
  (.cons "Topics" (-32768) none none .none (.arr .normal (.struct false (some 0) (.cons "Topic" (-32768) none none .none (.str .str)
  (.cons "Partitions" (-32768) none none .none (.arr .normal (.struct false (some 0) (.cons "Partition" (-32768) none none .none (.prim .int32)
  (.cons "ErrorCode" (-32768) none none .none (.prim .int16)
  (.cons "ErrorMessage" (-32768) none none .none (.str (.nstr (-32768)))
  Fields.nil)))))
  Fields.nil))))
  Fields.nil)))))

def S_ListPartitionReassignmentsRequest : Ty :=
  .struct false (some 0) (.cons "TimeoutMillis" (-32768) none none (.int 60000) (.prim .int32)
  (.cons "Topics" (-32768) none none .none (.arr (.nullable (-32768)) (.struct false (some 0) (.cons "Topic" (-32768) none none .none (.str .str)
  (.cons "Partitions" (-32768) none none .none (.arr .normal (.prim .int32))
  Fields.nil))))
  Fields.nil))

def S_ListPartitionReassignmentsResponse : Ty :=
  .struct false (some 0) (.cons "ThrottleMillis" (-32768) none none .none (.prim .int32)
  (.cons "ErrorCode" (-32768) none none .none (.prim .int16)
  (.cons "ErrorMessage" (-32768) none none .none (.str (.nstr (-32768)))
  (.cons "Topics" (-32768) none none .none (.arr .normal (.struct false (some 0) (.cons "Topic" (-32768) none none .none (.str .str)
  (.cons "Partitions" (-32768) none none .none (.arr .normal (.struct false (some 0) (.cons "Partition" (-32768) none none .none (.prim .int32)
  (.cons "Replicas" (-32768) none none .none (.arr .normal (.prim .int32))
  (.cons "AddingReplicas" (-32768) none none .none (.arr .normal (.prim .int32))
  (.cons "RemovingReplicas" (-32768) none none .none (.arr .normal (.prim .int32))
  Fields.nil))))))
  Fields.nil))))
  Fields.nil))))

def S_OffsetDeleteRequest : Ty :=
  .struct false none (.cons "Group" (-32768) none none .none (.str .str)
  (.cons "Topics" (-32768) none none .none (.arr .normal (.struct false none (.cons "Topic" (-32768) none none .none (.str .str)
  (.cons "Partitions" (-32768) none none .none (.arr .normal (.struct false none (.cons "Partition" (-32768) none none .none (.prim .int32)
  Fields.nil)))
  Fields.nil))))
  Fields.nil))

def S_OffsetDeleteResponse : Ty :=
  .struct false none (.cons "ErrorCode" (-32768) none none .none (.prim .int16)
  (.cons "ThrottleMillis" (-32768) none none .none (.prim .int32)
  (.cons "Topics" (-32768) none none .none (.arr .normal (.struct false none (.cons "Topic" (-32768) none none .none (.str .str)
  (.cons "Partitions" (-32768) none none .none (.arr .normal (.struct false none (.cons "Partition" (-32768) none none .none (.prim .int32)
  (.cons "ErrorCode" (-32768) none none .none (.prim .int16)
  Fields.nil))))
  Fields.nil))))
  Fields.nil)))

def S_DescribeClientQuotasRequest : Ty :=
  .struct false (some 1) (.cons "Components" (-32768) none none .none (.arr .normal (.struct false (some 1) (.cons "EntityType" (-32768) none none .none (.str .str)
  (.cons "MatchType" (-32768) none none .none (.prim .int8)
  (.cons "Match" (-32768) none none .none (.str (.nstr (-32768)))
  Fields.nil)))))
  (.cons "Strict" (-32768) none none .none (.prim .bool)
  Fields.nil))

def S_DescribeClientQuotasResponse : Ty :=
  .struct false (some 1) (.cons "ThrottleMillis" (-32768) none none .none (.prim .int32)
  (.cons "ErrorCode" (-32768) none none .none (.prim .int16)
  (.cons "ErrorMessage" (-32768) none none .none (.str (.nstr (-32768)))
  (.cons "Entries" (-32768) none none .none (.arr (.nullable (-32768)) (.struct false (some 1) (.cons "Entity" (-32768) none none .none (.arr .normal (.struct false (some 1) (.cons "Type" (-32768) none none .none (.str .str)
  (.cons "Name" (-32768) none none .none (.str (.nstr (-32768)))
  Fields.nil))))
  (.cons "Values" (-32768) none none .none (.arr .normal (.struct false (some 1) (.cons "Key" (-32768) none none .none (.str .str)
  (.cons "Value" (-32768) none none .none (.prim .float64)
  Fields.nil))))
  Fields.nil))))
  Fields.nil))))

def S_AlterClientQuotasRequest : Ty :=
  .struct false (some 1) (.cons "Entries" (-32768) none none .none (.arr .normal (.struct false (some 1) (.cons "Entity" (-32768) none none .none (.arr .normal (.struct false (some 1) (.cons "Type" (-32768) none none .none (.str .str)
  (.cons "Name" (-32768) none none .none (.str (.nstr (-32768)))
  Fields.nil))))
  (.cons "Ops" (-32768) none none .none (.arr .normal (.struct false (some 1) (.cons "Key" (-32768) none none .none (.str .str)
  (.cons "Value" (-32768) none none .none (.prim .float64)
  (.cons "Remove" (-32768) none none .none (.prim .bool)
  Fields.nil)))))
  Fields.nil))))
  (.cons "ValidateOnly" (-32768) none none .none (.prim .bool)
  Fields.nil))

def S_AlterClientQuotasResponse : Ty :=
  .struct false (some 1) (.cons "ThrottleMillis" (-32768) none none .none (.prim .int32)
  (.cons "Entries" (-32768) none none .none (.arr .normal (.struct false (some 1) (.cons "ErrorCode" (-32768) none none .none (.prim .int16)
  (.cons "ErrorMessage" (-32768) none none .none (.str (.nstr (-32768)))
  (.cons "Entity" (-32768) none none .none (.arr .normal (.struct false (some 1) (.cons "Type" (-32768) none none .none (.str .str)
  (.cons "Name" (-32768) none none .none (.str (.nstr (-32768)))
  Fields.nil))))
  Fields.nil)))))
  Fields.nil))

def S_DescribeUserSCRAMCredentialsRequest : Ty :=
  .struct false (some 0) (.cons "Users" (-32768) none none .none (.arr (.nullable (-32768)) (.struct false (some 0) (.cons "Name" (-32768) none none .none (.str .str)
  Fields.nil)))
  Fields.nil)

def S_DescribeUserSCRAMCredentialsResponse : Ty :=
  .struct false (some 0) (.cons "ThrottleMillis" (-32768) none none .none (.prim .int32)
  (.cons "ErrorCode" (-32768) none none .none (.prim .int16)
  (.cons "ErrorMessage" (-32768) none none .none (.str (.nstr (-32768)))
  (.cons "Results" (-32768) none none .none (.arr .normal (.struct false (some 0) (.cons "User" (-32768) none none .none (.str .str)
  (.cons "ErrorCode" (-32768) none none .none (.prim .int16)
  (.cons "ErrorMessage" (-32768) none none .none (.str (.nstr (-32768)))
  (.cons "CredentialInfos" (-32768) none none .none (.arr .normal (.struct false (some 0) (.cons "Mechanism" (-32768) none none .none (.prim .int8)
  (.cons "Iterations" (-32768) none none .none (.prim .int32)
  Fields.nil))))
  Fields.nil))))))
  Fields.nil))))

def S_AlterUserSCRAMCredentialsRequest : Ty :=
  .struct false (some 0) (.cons "Deletions" (-32768) none none .none (.arr .normal (.struct false (some 0) (.cons "Name" (-32768) none none .none (.str .str)
  (.cons "Mechanism" (-32768) none none .none (.prim .int8)
  Fields.nil))))
  (.cons "Upsertions" (-32768) none none .none (.arr .normal (.struct false (some 0) (.cons "Name" (-32768) none none .none (.str .str)
  (.cons "Mechanism" (-32768) none none .none (.prim .int8)
  (.cons "Iterations" (-32768) none none .none (.prim .int32)
  (.cons "Salt" (-32768) none none .none (.str .bytes)
  (.cons "SaltedPassword" (-32768) none none .none (.str .bytes)
  Fields.nil)))))))
  Fields.nil))

def S_AlterUserSCRAMCredentialsResponse : Ty :=
  .struct false (some 0) (.cons "ThrottleMillis" (-32768) none none .none (.prim .int32)
  (.cons "Results" (-32768) none none .none (.arr .normal (.struct false (some 0) (.cons "User" (-32768) none none .none (.str .str)
  (.cons "ErrorCode" (-32768) none none .none (.prim .int16)
  (.cons "ErrorMessage" (-32768) none none .none (.str (.nstr (-32768)))
  Fields.nil)))))
  Fields.nil))

def S_VoteRequest : Ty :=
  .struct false (some 0) (.cons "ClusterID" (-32768) none none .none (.str (.nstr (-32768)))
  (.cons "VoterID" 1 none none (.int (-1)) (.prim .int32)
  (.cons "Topics" (-32768) none none .none (.arr .normal (.struct false (some 0) (.cons "Topic" (-32768) none none .none (.str .str)
  (.cons "Partitions" (-32768) none none .none (.arr .normal (.struct false (some 0) (.cons "Partition" (-32768) none none .none (.prim .int32)
  (.cons "CandidateEpoch" (-32768) none none .none (.prim .int32)
  (.cons "CandidateID" (-32768) none none .none (.prim .int32)
  (.cons "CandidateDirectoryID" 1 none none .none (.prim .uuid)
  (.cons "VoterDirectoryID" 1 none none .none (.prim .uuid)
  (.cons "LastOffsetEpoch" (-32768) none none .none (.prim .int32)
  (.cons "LastOffset" (-32768) none none .none (.prim .int64)
  (.cons "PreVote" 2 none none .none (.prim .bool)
  Fields.nil))))))))))
  Fields.nil))))
  Fields.nil)))

def S_VoteResponse : Ty :=
  .struct false (some 0) (.cons "ErrorCode" (-32768) none none .none (.prim .int16)
  (.cons "Topics" (-32768) none none .none (.arr .normal (.struct false (some 0) (.cons "Topic" (-32768) none none .none (.str .str)
  (.cons "Partitions" (-32768) none none .none (.arr .normal (.struct false (some 0) (.cons "Partition" (-32768) none none .none (.prim .int32)
  (.cons "ErrorCode" (-32768) none none .none (.prim .int16)
  (.cons "LeaderID" (-32768) none none .none (.prim .int32)
  (.cons "LeaderEpoch" (-32768) none none .none (.prim .int32)
  (.cons "VoteGranted" (-32768) none none .none (.prim .bool)
  Fields.nil)))))))
  Fields.nil))))
  (.cons "NodeEndpoints" (-32768) none (some 0) .none (.arr .normal (.struct false (some 0) (.cons "NodeID" 1 none none .none (.prim .int32)
  (.cons "Host" 1 none none .none (.str .str)
  (.cons "Port" 1 none none .none (.prim .uint16)
  Fields.nil)))))
  Fields.nil)))

def S_BeginQuorumEpochRequest : Ty :=
  .struct false (some 1) (.cons "ClusterID" (-32768) none none .none (.str (.nstr (-32768)))
  (.cons "VoterID" 1 none none (.int (-1)) (.prim .int32)
  (.cons "Topics" (-32768) none none .none (.arr .normal (.struct false (some 1) (.cons "Topic" (-32768) none none .none (.str .str)
  (.cons "Partitions" (-32768) none none .none (.arr .normal (.struct false (some 1) (.cons "Partition" (-32768) none none .none (.prim .int32)
  (.cons "VoterDirectoryID" 1 none none .none (.prim .uuid)
  (.cons "LeaderID" (-32768) none none .none (.prim .int32)
  (.cons "LeaderEpoch" (-32768) none none .none (.prim .int32)
  Fields.nil))))))
  Fields.nil))))
  (.cons "LeaderEndpoints" 1 none none .none (.arr .normal (.struct false (some 1) (.cons "Name" (-32768) none none .none (.str .str)
  (.cons "Host" (-32768) none none .none (.str .str)
  (.cons "Port" (-32768) none none .none (.prim .uint16)
  Fields.nil)))))
  Fields.nil))))

def S_BeginQuorumEpochResponse : Ty :=
  .struct false (some 1) (.cons "ErrorCode" (-32768) none none .none (.prim .int16)
  (.cons "Topics" (-32768) none none .none (.arr .normal (.struct false (some 1) (.cons "Topic" (-32768) none none .none (.str .str)
  (.cons "Partitions" (-32768) none none .none (.arr .normal (.struct false (some 1) (.cons "Partition" (-32768) none none .none (.prim .int32)
  (.cons "ErrorCode" (-32768) none none .none (.prim .int16)
  (.cons "LeaderID" (-32768) none none .none (.prim .int32)
  (.cons "LeaderEpoch" (-32768) none none .none (.prim .int32)
  Fields.nil))))))
  Fields.nil))))
  (.cons "NodeEndpoints" (-32768) none (some 0) .none (.arr .normal (.struct false (some 1) (.cons "NodeID" 1 none none .none (.prim .int32)
  (.cons "Host" 1 none none .none (.str .str)
  (.cons "Port" 1 none none .none (.prim .uint16)
  Fields.nil)))))
  Fields.nil)))

def S_EndQuorumEpochRequest : Ty :=
  .struct false (some 1) (.cons "ClusterID" (-32768) none none .none (.str (.nstr (-32768)))
  (.cons "Topics" (-32768) none none .none (.arr .normal (.struct false (some 1) (.cons "Topic" (-32768) none none .none (.str .str)
  (.cons "Partitions" (-32768) none none .none (.arr .normal (.struct false (some 1) (.cons "Partition" (-32768) none none .none (.prim .int32)
  (.cons "LeaderID" (-32768) none none .none (.prim .int32)
  (.cons "LeaderEpoch" (-32768) none none .none (.prim .int32)
  (.cons "PreferredSuccessors" 0 (some 0) none .none (.arr .normal (.prim .int32))
  (.cons "PreferredCandidates" 1 none none .none (.arr .normal (.struct false (some 1) (.cons "CandidateID" (-32768) none none .none (.prim .int32)
  (.cons "CandidateDirectoryID" (-32768) none none .none (.prim .uuid)
  Fields.nil))))
  Fields.nil)))))))
  Fields.nil))))
  (.cons "LeaderEndpoints" 1 none none .none (.arr .normal (.struct false (some 1) (.cons "Name" (-32768) none none .none (.str .str)
  (.cons "Host" (-32768) none none .none (.str .str)
  (.cons "Port" (-32768) none none .none (.prim .uint16)
  Fields.nil)))))
  Fields.nil)))

def S_EndQuorumEpochResponse : Ty :=
  .struct false (some 1) (.cons "ErrorCode" (-32768) none none .none (.prim .int16)
  (.cons "Topics" (-32768) none none .none (.arr .normal (.struct false (some 1) (.cons "Topic" (-32768) none none .none (.str .str)
  (.cons "Partitions" (-32768) none none .none (.arr .normal (.struct false (some 1) (.cons "Partition" (-32768) none none .none (.prim .int32)
  (.cons "ErrorCode" (-32768) none none .none (.prim .int16)
  (.cons "LeaderID" (-32768) none none .none (.prim .int32)
  (.cons "LeaderEpoch" (-32768) none none .none (.prim .int32)
  Fields.nil))))))
  Fields.nil))))
  (.cons "NodeEndpoints" (-32768) none (some 0) .none (.arr .normal (.struct false (some 1) (.cons "NodeID" 1 none none .none (.prim .int32)
  (.cons "Host" 1 none none .none (.str .str)
  (.cons "Port" 1 none none .none (.prim .uint16)
  Fields.nil)))))
  Fields.nil)))

def S_DescribeQuorumResponseTopicPartitionReplicaState : Ty :=
  .struct false (some 0) (.cons "ReplicaID" (-32768) none none .none (.prim .int32)
  (.cons "ReplicaDirectoryID" 2 none none .none (.prim .uuid)
  (.cons "LogEndOffset" (-32768) none none .none (.prim .int64)
  (.cons "LastFetchTimestamp" 1 none none (.int (-1)) (.prim .int64)
  (.cons "LastCaughtUpTimestamp" 1 none none (.int (-1)) (.prim .int64)
  Fields.nil)))))

def S_DescribeQuorumRequest : Ty :=
  .struct false (some 0) (.cons "Topics" (-32768) none none .none (.arr .normal (.struct false (some 0) (.cons "Topic" (-32768) none none .none (.str .str)
  (.cons "Partitions" (-32768) none none .none (.arr .normal (.struct false (some 0) (.cons "Partition" (-32768) none none .none (.prim .int32)
  Fields.nil)))
  Fields.nil))))
  Fields.nil)

def S_DescribeQuorumResponse : Ty :=
  .struct false (some 0) (.cons "ErrorCode" (-32768) none none .none (.prim .int16)
  (.cons "ErrorMessage" 2 none none .none (.str (.nstr (-32768)))
  (.cons "Topics" (-32768) none none .none (.arr .normal (.struct false (some 0) (.cons "Topic" (-32768) none none .none (.str .str)
  (.cons "Partitions" (-32768) none none .none (.arr .normal (.struct false (some 0) (.cons "Partition" (-32768) none none .none (.prim .int32)
  (.cons "ErrorCode" (-32768) none none .none (.prim .int16)
  (.cons "ErrorMessage" 2 none none .none (.str (.nstr (-32768)))
  (.cons "LeaderID" (-32768) none none .none (.prim .int32)
  (.cons "LeaderEpoch" (-32768) none none .none (.prim .int32)
  (.cons "HighWatermark" (-32768) none none .none (.prim .int64)
  (.cons "CurrentVoters" (-32768) none none .none (.arr .normal (S_DescribeQuorumResponseTopicPartitionReplicaState))
  (.cons "Observers" (-32768) none none .none (.arr .normal (S_DescribeQuorumResponseTopicPartitionReplicaState))
  Fields.nil))))))))))
  Fields.nil))))
  (.cons "Nodes" 2 none none .none (.arr .normal (.struct false (some 0) (.cons "NodeID" (-32768) none none .none (.prim .int32)
  (.cons "Listeners" (-32768) none none .none (.arr .normal (.struct false (some 0) (.cons "Name" (-32768) none none .none (.str .str)
  (.cons "Host" (-32768) none none .none (.str .str)
  (.cons "Port" (-32768) none none .none (.prim .uint16)
  Fields.nil)))))
  Fields.nil))))
  Fields.nil))))

def S_AlterPartitionRequest : Ty :=
  .struct false (some 0) (.cons "BrokerID" (-32768) none none .none (.prim .int32)
  (.cons "BrokerEpoch" (-32768) none none (.int (-1)) (.prim .int64)
  (.cons "Topics" (-32768) none none .none (.arr .normal (.struct false (some 0) (.cons "Topic" 0 (some 1) none .none (.str .str)
  (.cons "TopicID" 2 none none .none (.prim .uuid)
  (.cons "Partitions" (-32768) none none .none (.arr .normal (.struct false (some 0) (.cons "Partition" (-32768) none none .none (.prim .int32)
  (.cons "LeaderEpoch" (-32768) none none .none (.prim .int32)
  (.cons "NewISR" 0 (some 2) none .none (.arr .normal (.prim .int32))
  (.cons "NewEpochISR" 3 none none .none (.arr .normal (.struct false (some 0) (.cons "BrokerID" (-32768) none none .none (.prim .int32)
  (.cons "BrokerEpoch" (-32768) none none (.int (-1)) (.prim .int64)
  Fields.nil))))
  (.cons "LeaderRecoveryState" 1 none none .none (.prim .int8)
  (.cons "PartitionEpoch" (-32768) none none .none (.prim .int32)
  Fields.nil))))))))
  Fields.nil)))))
  Fields.nil)))

def S_AlterPartitionResponse : Ty :=
  .struct false (some 0) (.cons "ThrottleMillis" (-32768) none none .none (.prim .int32)
  (.cons "ErrorCode" (-32768) none none .none (.prim .int16)
  (.cons "Topics" (-32768) none none .none (.arr .normal (.struct false (some 0) (.cons "Topic" 0 (some 1) none .none (.str .str)
  (.cons "TopidID" 2 none none .none (.prim .uuid)
  (.cons "Partitions" (-32768) none none .none (.arr .normal (.struct false (some 0) (.cons "Partition" (-32768) none none .none (.prim .int32)
  (.cons "ErrorCode" (-32768) none none .none (.prim .int16)
  (.cons "LeaderID" (-32768) none none .none (.prim .int32)
  (.cons "LeaderEpoch" (-32768) none none .none (.prim .int32)
  (.cons "ISR" (-32768) none none .none (.arr .normal (.prim .int32))
  (.cons "LeaderRecoveryState" 1 none none .none (.prim .int8)
  (.cons "PartitionEpoch" (-32768) none none .none (.prim .int32)
  Fields.nil)))))))))
  Fields.nil)))))
  Fields.nil)))

def S_UpdateFeaturesRequest : Ty :=
  .struct false (some 0) (.cons "TimeoutMillis" (-32768) none none (.int 60000) (.prim .int32)
  (.cons "FeatureUpdates" (-32768) none none .none (.arr .normal (.struct false (some 0) (.cons "Feature" (-32768) none none .none (.str .str)
  (.cons "MaxVersionLevel" (-32768) none none .none (.prim .int16)
  (.cons "AllowDowngrade" 0 (some 0) none .none (.prim .bool)
  (.cons "UpgradeType" 1 none none .none (.prim .int8)
  Fields.nil))))))
  (.cons "ValidateOnly" 1 none none .none (.prim .bool)
  Fields.nil)))

def S_UpdateFeaturesResponse : Ty :=
  .struct false (some 0) (.cons "ThrottleMillis" (-32768) none none .none (.prim .int32)
  (.cons "ErrorCode" (-32768) none none .none (.prim .int16)
  (.cons "ErrorMessage" (-32768) none none .none (.str (.nstr (-32768)))
  (.cons "Results" 0 (some 1) none .none (.arr .normal (.struct false (some 0) (.cons "Feature" (-32768) none none .none (.str .str)
  (.cons "ErrorCode" (-32768) none none .none (.prim .int16)
  (.cons "ErrorMessage" (-32768) none none .none (.str (.nstr (-32768)))
  Fields.nil)))))
  Fields.nil))))

def S_EnvelopeRequest : Ty :=
  .struct false (some 0) (.cons "RequestData" (-32768) none none .none (.str .bytes)
  (.cons "RequestPrincipal" (-32768) none none .none (.str .nbytes)
  (.cons "ClientHostAddress" (-32768) none none .none (.str .bytes)
  Fields.nil)))

def S_EnvelopeResponse : Ty :=
  .struct false (some 0) (.cons "ResponseData" (-32768) none none .none (.str .nbytes)
  (.cons "ErrorCode" (-32768) none none .none (.prim .int16)
  Fields.nil))

def S_FetchSnapshotRequest : Ty :=
  .struct false (some 0) (.cons "ClusterID" (-32768) none (some 0) .none (.str (.nstr (-32768)))
  (.cons "ReplicaID" (-32768) none none (.int (-1)) (.prim .int32)
  (.cons "MaxBytes" (-32768) none none (.int 2147483647) (.prim .int32)
  (.cons "Topics" (-32768) none none .none (.arr .normal (.struct false (some 0) (.cons "Topic" (-32768) none none .none (.str .str)
  (.cons "Partitions" (-32768) none none .none (.arr .normal (.struct false (some 0) (.cons "Partition" (-32768) none none .none (.prim .int32)
  (.cons "CurrentLeaderEpoch" (-32768) none none .none (.prim .int32)
  (.cons "SnapshotID" (-32768) none none .none (.struct false (some 0) (.cons "EndOffset" (-32768) none none .none (.prim .int64)
  (.cons "Epoch" (-32768) none none .none (.prim .int32)
  Fields.nil)))
  (.cons "Position" (-32768) none none .none (.prim .int64)
  (.cons "ReplicaDirectoryID" (-32768) none (some 0) .none (.prim .uuid)
  Fields.nil)))))))
  Fields.nil))))
  Fields.nil))))

def S_FetchSnapshotResponse : Ty :=
  .struct false (some 0) (.cons "ThrottleMillis" (-32768) none none .none (.prim .int32)
  (.cons "ErrorCode" (-32768) none none .none (.prim .int16)
  (.cons "Topics" (-32768) none none .none (.arr .normal (.struct false (some 0) (.cons "Topic" (-32768) none none .none (.str .str)
  (.cons "Partitions" (-32768) none none .none (.arr .normal (.struct false (some 0) (.cons "Partition" (-32768) none none .none (.prim .int32)
  (.cons "ErrorCode" (-32768) none none .none (.prim .int16)
  (.cons "SnapshotID" (-32768) none none .none (.struct false (some 0) (.cons "EndOffset" (-32768) none none .none (.prim .int64)
  (.cons "Epoch" (-32768) none none .none (.prim .int32)
  Fields.nil)))
  (.cons "CurrentLeader" (-32768) none (some 0) .none (.struct false (some 0) (.cons "LeaderID" (-32768) none none .none (.prim .int32)
  (.cons "LeaderEpoch" (-32768) none none .none (.prim .int32)
  Fields.nil)))
  (.cons "Size" (-32768) none none .none (.prim .int64)
  (.cons "Position" (-32768) none none .none (.prim .int64)
  (.cons "Bytes" (-32768) none none .none (.str .bytes)
  Fields.nil)))))))))
  Fields.nil))))
  (.cons "NodeEndpoints" (-32768) none (some 0) .none (.arr .normal (.struct false (some 0) (.cons "NodeID" 1 none none .none (.prim .int32)
  (.cons "Host" 1 none none .none (.str .str)
  (.cons "Port" 1 none none .none (.prim .uint16)
  Fields.nil)))))
  Fields.nil))))

def S_DescribeClusterRequest : Ty :=
  .struct false (some 0) (.cons "IncludeClusterAuthorizedOperations" (-32768) none none .none (.prim .bool)
  (.cons "EndpointType" 1 none none (.int 1) (.prim .int8)
  (.cons "IncludeFencedBrokers" 2 none none .none (.prim .bool)
  Fields.nil)))

def S_DescribeClusterResponse : Ty :=
  .struct false (some 0) (.cons "ThrottleMillis" (-32768) none none .none (.prim .int32)
  (.cons "ErrorCode" (-32768) none none .none (.prim .int16)
  (.cons "ErrorMessage" (-32768) none none .none (.str (.nstr (-32768)))
  (.cons "EndpointType" 1 none none (.int 1) (.prim .int8)
  (.cons "ClusterID" (-32768) none none .none (.str .str)
  (.cons "ControllerID" (-32768) none none (.int (-1)) (.prim .int32)
  (.cons "Brokers" (-32768) none none .none (.arr .normal (.struct false (some 0) (.cons "NodeID" (-32768) none none .none (.prim .int32)
  (.cons "Host" (-32768) none none .none (.str .str)
  (.cons "Port" (-32768) none none .none (.prim .int32)
  (.cons "Rack" (-32768) none none .none (.str (.nstr (-32768)))
  (.cons "IsFenced" 2 none none .none (.prim .bool)
  Fields.nil)))))))
  (.cons "ClusterAuthorizedOperations" (-32768) none none (.int (-2147483648)) (.prim .int32)
  Fields.nil))))))))

def S_DescribeProducersRequest : Ty :=
  .struct false (some 0) (.cons "Topics" (-32768) none none .none (.arr .normal (.struct false (some 0) (.cons "Topic" (-32768) none none .none (.str .str)
  (.cons "Partitions" (-32768) none none .none (.arr .normal (.prim .int32))
  Fields.nil))))
  Fields.nil)

def S_DescribeProducersResponse : Ty :=
  .struct false (some 0) (.cons "ThrottleMillis" (-32768) none none .none (.prim .int32)
  (.cons "Topics" (-32768) none none .none (.arr .normal (.struct false (some 0) (.cons "Topic" (-32768) none none .none (.str .str)
  (.cons "Partitions" (-32768) none none .none (.arr .normal (.struct false (some 0) (.cons "Partition" (-32768) none none .none (.prim .int32)
  (.cons "ErrorCode" (-32768) none none .none (.prim .int16)
  (.cons "ErrorMessage" (-32768) none none .none (.str (.nstr (-32768)))
  (.cons "ActiveProducers" (-32768) none none .none (.arr .normal (.struct false (some 0) (.cons "ProducerID" (-32768) none none .none (.prim .int64)
  (.cons "ProducerEpoch" (-32768) none none .none (.prim .int32)
  (.cons "LastSequence" (-32768) none none (.int (-1)) (.prim .int32)
  (.cons "LastTimestamp" (-32768) none none (.int (-1)) (.prim .int64)
  (.cons "CoordinatorEpoch" (-32768) none none .none (.prim .int32)
  (.cons "CurrentTxnStartOffset" (-32768) none none (.int (-1)) (.prim .int64)
  Fields.nil))))))))
  Fields.nil))))))
  Fields.nil))))
  Fields.nil))

def S_BrokerRegistrationRequest : Ty :=
  .struct false (some 0) (.cons "BrokerID" (-32768) none none .none (.prim .int32)
  (.cons "ClusterID" (-32768) none none .none (.str .str)
  (.cons "IncarnationID" (-32768) none none .none (.prim .uuid)
  (.cons "Listeners" (-32768) none none .none (.arr .normal (.struct false (some 0) (.cons "Name" (-32768) none none .none (.str .str)
  (.cons "Host" (-32768) none none .none (.str .str)
  (.cons "Port" (-32768) none none .none (.prim .uint16)
  (.cons "SecurityProtocol" (-32768) none none .none (.prim .int16)
  Fields.nil))))))
  (.cons "Features" (-32768) none none .none (.arr .normal (.struct false (some 0) (.cons "Name" (-32768) none none .none (.str .str)
  (.cons "MinSupportedVersion" (-32768) none none .none (.prim .int16)
  (.cons "MaxSupportedVersion" (-32768) none none .none (.prim .int16)
  Fields.nil)))))
  (.cons "Rack" (-32768) none none .none (.str (.nstr (-32768)))
  (.cons "IsMigratingZkBroker" 1 none none .none (.prim .bool)
  (.cons "LogDirs" 2 none none .none (.arr .normal (.prim .uuid))
  (.cons "PreviousBrokerEpoch" 3 none none (.int (-1)) (.prim .int64)
  Fields.nil)))))))))

def S_BrokerRegistrationResponse : Ty :=
  .struct false (some 0) (.cons "ThrottleMillis" (-32768) none none .none (.prim .int32)
  (.cons "ErrorCode" (-32768) none none .none (.prim .int16)
  (.cons "BrokerEpoch" (-32768) none none (.int (-1)) (.prim .int64)
  Fields.nil)))

def S_BrokerHeartbeatRequest : Ty :=
  .struct false (some 0) (.cons "BrokerID" (-32768) none none .none (.prim .int32)
  (.cons "BrokerEpoch" (-32768) none none (.int (-1)) (.prim .int64)
  (.cons "CurrentMetadataOffset" (-32768) none none .none (.prim .int64)
  (.cons "WantFence" (-32768) none none .none (.prim .bool)
  (.cons "WantShutdown" (-32768) none none .none (.prim .bool)
  (.cons "OfflineLogDirs" (-32768) none (some 0) .none (.arr .normal (.prim .uuid))
  Fields.nil))))))

def S_BrokerHeartbeatResponse : Ty :=
  .struct false (some 0) (.cons "ThrottleMillis" (-32768) none none .none (.prim .int32)
  (.cons "ErrorCode" (-32768) none none .none (.prim .int16)
  (.cons "IsCaughtUp" (-32768) none none .none (.prim .bool)
  (.cons "IsFenced" (-32768) none none (.int 1) (.prim .bool)
  (.cons "ShouldShutdown" (-32768) none none .none (.prim .bool)
  Fields.nil)))))

def S_UnregisterBrokerRequest : Ty :=
  .struct false (some 0) (.cons "BrokerID" (-32768) none none .none (.prim .int32)
  Fields.nil)

def S_UnregisterBrokerResponse : Ty :=
  .struct false (some 0) (.cons "ThrottleMillis" (-32768) none none .none (.prim .int32)
  (.cons "ErrorCode" (-32768) none none .none (.prim .int16)
  (.cons "ErrorMessage" (-32768) none none .none (.str (.nstr (-32768)))
  Fields.nil)))

def S_DescribeTransactionsRequest : Ty :=
  .struct false (some 0) (.cons "TransactionalIDs" (-32768) none none .none (.arr .normal (.str .str))
  Fields.nil)

def S_DescribeTransactionsResponse : Ty :=
  .struct false (some 0) (.cons "ThrottleMillis" (-32768) none none .none (.prim .int32)
  (.cons "TransactionStates" (-32768) none none .none (.arr .normal (.struct false (some 0) (.cons "ErrorCode" (-32768) none none .none (.prim .int16)
  (.cons "TransactionalID" (-32768) none none .none (.str .str)
  (.cons "State" (-32768) none none .none (.str .str)
  (.cons "TimeoutMillis" (-32768) none none .none (.prim .int32)
  (.cons "StartTimestamp" (-32768) none none .none (.prim .int64)
  (.cons "ProducerID" (-32768) none none .none (.prim .int64)
  (.cons "ProducerEpoch" (-32768) none none .none (.prim .int16)
  (.cons "Topics" (-32768) none none .none (.arr .normal (.struct false (some 0) (.cons "Topic" (-32768) none none .none (.str .str)
  (.cons "Partitions" (-32768) none none .none (.arr .normal (.prim .int32))
  Fields.nil))))
  Fields.nil))))))))))
  Fields.nil))

def S_ListTransactionsRequest : Ty :=
  .struct false (some 0) (.cons "StateFilters" (-32768) none none .none (.arr .normal (.str .str))
  (.cons "ProducerIDFilters" (-32768) none none .none (.arr .normal (.prim .int64))
  (.cons "DurationFilterMillis" 1 none none (.int (-1)) (.prim .int64)
  (.cons "TransactionalIDPattern" 2 none none .none (.str (.nstr (-32768)))
  Fields.nil))))

def S_ListTransactionsResponse : Ty :=
  .struct false (some 0) (.cons "ThrottleMillis" (-32768) none none .none (.prim .int32)
  (.cons "ErrorCode" (-32768) none none .none (.prim .int16)
  (.cons "UnknownStateFilters" (-32768) none none .none (.arr .normal (.str .str))
  (.cons "TransactionStates" (-32768) none none .none (.arr .normal (.struct false (some 0) (.cons "TransactionalID" (-32768) none none .none (.str .str)
  (.cons "ProducerID" (-32768) none none .none (.prim .int64)
  (.cons "TransactionState" (-32768) none none .none (.str .str)
  Fields.nil)))))
  Fields.nil))))

def S_AllocateProducerIDsRequest : Ty :=
  .struct false (some 0) (.cons "BrokerID" (-32768) none none .none (.prim .int32)
  (.cons "BrokerEpoch" (-32768) none none (.int (-1)) (.prim .int64)
  Fields.nil))

def S_AllocateProducerIDsResponse : Ty :=
  .struct false (some 0) (.cons "ThrottleMillis" (-32768) none none .none (.prim .int32)
  (.cons "ErrorCode" (-32768) none none .none (.prim .int16)
  (.cons "ProducerIDStart" (-32768) none none .none (.prim .int64)
  (.cons "ProducerIDLen" (-32768) none none .none (.prim .int32)
  Fields.nil))))

def S_ConsumerGroupHeartbeatRequest : Ty :=
  .struct false (some 0) (.cons "Group" (-32768) none none .none (.str .str)
  (.cons "MemberID" (-32768) none none .none (.str .str)
  (.cons "MemberEpoch" (-32768) none none .none (.prim .int32)
  (.cons "InstanceID" (-32768) none none .none (.str (.nstr (-32768)))
  (.cons "RackID" (-32768) none none .none (.str (.nstr (-32768)))
  (.cons "RebalanceTimeoutMillis" (-32768) none none (.int (-1)) (.prim .int32)
  (.cons "SubscribedTopicNames" (-32768) none none .none (.arr (.nullable (-32768)) (.str .str))
  (.cons "SubscribedTopicRegex" 1 none none .none (.str (.nstr (-32768)))
  (.cons "ServerAssignor" (-32768) none none .none (.str (.nstr (-32768)))
  (.cons "Topics" (-32768) none none .none (.arr (.nullable (-32768)) (.struct false (some 0) (.cons "TopicID" (-32768) none none .none (.prim .uuid)
  (.cons "Partitions" (-32768) none none .none (.arr .normal (.prim .int32))
  Fields.nil))))
  Fields.nil))))))))))

def S_ConsumerGroupHeartbeatResponse : Ty :=
  .struct false (some 0) (.cons "ThrottleMillis" (-32768) none none .none (.prim .int32)
  (.cons "ErrorCode" (-32768) none none .none (.prim .int16)
  (.cons "ErrorMessage" (-32768) none none .none (.str (.nstr (-32768)))
  (.cons "MemberID" (-32768) none none .none (.str (.nstr (-32768)))
  (.cons "MemberEpoch" (-32768) none none .none (.prim .int32)
  (.cons "HeartbeatIntervalMillis" (-32768) none none .none (.prim .int32)
  (.cons "Assignment" (-32768) none none .none (.struct true (some 0) (.cons "Topics" (-32768) none none .none (.arr .normal (.struct false (some 0) (.cons "TopicID" (-32768) none none .none (.prim .uuid)
  (.cons "Partitions" (-32768) none none .none (.arr .normal (.prim .int32))
  Fields.nil))))
  Fields.nil))
  Fields.nil)))))))

def S_Assignment : Ty :=
  .struct false (some 0) (.cons "TopicPartitions" (-32768) none none .none (.arr .normal (.struct false (some 0) (.cons "TopicID" (-32768) none none .none (.prim .uuid)
  (.cons "Topic" (-32768) none none .none (.str .str)
  (.cons "Partitions" (-32768) none none .none (.arr .normal (.prim .int32))
  Fields.nil)))))
  Fields.nil)

def S_ConsumerGroupDescribeRequest : Ty :=
  .struct false (some 0) (.cons "Groups" (-32768) none none .none (.arr .normal (.str .str))
  (.cons "IncludeAuthorizedOperations" (-32768) none none .none (.prim .bool)
  Fields.nil))

def S_ConsumerGroupDescribeResponse : Ty :=
  .struct false (some 0) (.cons "ThrottleMillis" (-32768) none none .none (.prim .int32)
  (.cons "Groups" (-32768) none none .none (.arr .normal (.struct false (some 0) (.cons "ErrorCode" (-32768) none none .none (.prim .int16)
  (.cons "ErrorMessage" (-32768) none none .none (.str (.nstr (-32768)))
  (.cons "Group" (-32768) none none .none (.str .str)
  (.cons "State" (-32768) none none .none (.str .str)
  (.cons "Epoch" (-32768) none none .none (.prim .int32)
  (.cons "AssignmentEpoch" (-32768) none none .none (.prim .int32)
  (.cons "AssignorName" (-32768) none none .none (.str .str)
  (.cons "Members" (-32768) none none .none (.arr .normal (.struct false (some 0) (.cons "MemberID" (-32768) none none .none (.str .str)
  (.cons "InstanceID" (-32768) none none .none (.str (.nstr (-32768)))
  (.cons "RackID" (-32768) none none .none (.str (.nstr (-32768)))
  (.cons "MemberEpoch" (-32768) none none .none (.prim .int32)
  (.cons "ClientID" (-32768) none none .none (.str .str)
  (.cons "ClientHost" (-32768) none none .none (.str .str)
  (.cons "SubscribedTopics" (-32768) none none .none (.arr .normal (.str .str))
  (.cons "SubscribedTopicRegex" (-32768) none none .none (.str (.nstr (-32768)))
  (.cons "Assignment" (-32768) none none .none (S_Assignment)
  (.cons "TargetAssignment" (-32768) none none .none (S_Assignment)
  (.cons "MemberType" 1 none none (.int (-1)) (.prim .int8)
  Fields.nil)))))))))))))
  (.cons "AuthorizedOperations" (-32768) none none (.int (-2147483648)) (.prim .int32)
  Fields.nil)))))))))))
  Fields.nil))

def S_ControllerRegistrationRequest : Ty :=
  .struct false (some 0) (.cons "ControllerID" (-32768) none none .none (.prim .int32)
  (.cons "IncarnationID" (-32768) none none .none (.prim .uuid)
  (.cons "ZkMigrationReady" (-32768) none none .none (.prim .bool)
  (.cons "Listeners" (-32768) none none .none (.arr .normal (.struct false (some 0) (.cons "Name" (-32768) none none .none (.str .str)
  (.cons "Host" (-32768) none none .none (.str .str)
  (.cons "Port" (-32768) none none .none (.prim .uint16)
  (.cons "SecurityProtocol" (-32768) none none .none (.prim .int16)
  Fields.nil))))))
  (.cons "Features" (-32768) none none .none (.arr .normal (.struct false (some 0) (.cons "Name" (-32768) none none .none (.str .str)
  (.cons "MinSupportedVersion" (-32768) none none .none (.prim .int16)
  (.cons "MaxSupportedVersion" (-32768) none none .none (.prim .int16)
  Fields.nil)))))
  Fields.nil)))))

def S_ControllerRegistrationResponse : Ty :=
  .struct false (some 0) (.cons "ThrottleMillis" (-32768) none none .none (.prim .int32)
  (.cons "ErrorCode" (-32768) none none .none (.prim .int16)
  (.cons "ErrorMessage" (-32768) none none .none (.str (.nstr (-32768)))
  Fields.nil)))

def S_GetTelemetrySubscriptionsRequest : Ty :=
  .struct false (some 0) (.cons "ClientInstanceID" (-32768) none none .none (.prim .uuid)
  Fields.nil)

def S_GetTelemetrySubscriptionsResponse : Ty :=
  .struct false (some 0) (.cons "ThrottleMillis" (-32768) none none .none (.prim .int32)
  (.cons "ErrorCode" (-32768) none none .none (.prim .int16)
  (.cons "ClientInstanceID" (-32768) none none .none (.prim .uuid)
  (.cons "SubscriptionID" (-32768) none none .none (.prim .int32)
  (.cons "AcceptedCompressionTypes" (-32768) none none .none (.arr .normal (.prim .int8))
  (.cons "PushIntervalMillis" (-32768) none none .none (.prim .int32)
  (.cons "TelemetryMaxBytes" (-32768) none none .none (.prim .int32)
  (.cons "DeltaTemporality" (-32768) none none .none (.prim .bool)
  (.cons "RequestedMetrics" (-32768) none none .none (.arr .normal (.str .str))
  Fields.nil)))))))))

def S_PushTelemetryRequest : Ty :=
  .struct false (some 0) (.cons "ClientInstanceID" (-32768) none none .none (.prim .uuid)
  (.cons "SubscriptionID" (-32768) none none .none (.prim .int32)
  (.cons "Terminating" (-32768) none none .none (.prim .bool)
  (.cons "CompressionType" (-32768) none none .none (.prim .int8)
  (.cons "Metrics" (-32768) none none .none (.str .bytes)
  Fields.nil)))))

def S_PushTelemetryResponse : Ty :=
  .struct false (some 0) (.cons "ThrottleMillis" (-32768) none none .none (.prim .int32)
  (.cons "ErrorCode" (-32768) none none .none (.prim .int16)
  Fields.nil))

def S_AssignReplicasToDirsRequest : Ty :=
  .struct false (some 0) (.cons "BrokerID" (-32768) none none .none (.prim .int32)
  (.cons "BrokerEpoch" (-32768) none none (.int (-1)) (.prim .int64)
  (.cons "Directories" (-32768) none none .none (.arr .normal (.struct false (some 0) (.cons "ID" (-32768) none none .none (.prim .uuid)
  (.cons "Topics" (-32768) none none .none (.arr .normal (.struct false (some 0) (.cons "TopicID" (-32768) none none .none (.prim .uuid)
  (.cons "Partitions" (-32768) none none .none (.arr .normal (.struct false (some 0) (.cons "Partition" (-32768) none none .none (.prim .int32)
  Fields.nil)))
  Fields.nil))))
  Fields.nil))))
  Fields.nil)))

def S_AssignReplicasToDirsResponse : Ty :=
  .struct false (some 0) (.cons "ThrottleMillis" (-32768) none none .none (.prim .int32)
  (.cons "ErrorCode" (-32768) none none .none (.prim .int16)
  (.cons "Directories" (-32768) none none .none (.arr .normal (.struct false (some 0) (.cons "ID" (-32768) none none .none (.prim .uuid)
  (.cons "Topics" (-32768) none none .none (.arr .normal (.struct false (some 0) (.cons "TopicID" (-32768) none none .none (.prim .uuid)
  (.cons "Partitions" (-32768) none none .none (.arr .normal (.struct false (some 0) (.cons "Partition" (-32768) none none .none (.prim .int32)
  (.cons "ErrorCode" (-32768) none none .none (.prim .int16)
  Fields.nil))))
  Fields.nil))))
  Fields.nil))))
  Fields.nil)))

def S_ListConfigResourcesRequest : Ty :=
  .struct false (some 0) (.cons "ResourceTypes" 1 none none .none (.arr .normal (.prim .int8))
  Fields.nil)

def S_ListConfigResourcesResponse : Ty :=
  .struct false (some 0) (.cons "ThrottleMillis" (-32768) none none .none (.prim .int32)
  (.cons "ErrorCode" (-32768) none none .none (.prim .int16)
  (.cons "ConfigResources" (-32768) none none .none (.arr .normal (.struct false (some 0) (.cons "Name" (-32768) none none .none (.str .str)
  (.cons "Type" 1 none none (.int 16) (.prim .int8)
  Fields.nil))))
  Fields.nil)))

def S_DescribeTopicPartitionsRequest : Ty :=
  .struct false (some 0) (.cons "Topics" (-32768) none none .none (.arr .normal (.struct false (some 0) (.cons "Topic" (-32768) none none .none (.str .str)
  Fields.nil)))
  (.cons "ResponsePartitionLimit" (-32768) none none (.int 200) (.prim .int32)
  (.cons "Cursor" (-32768) none none .none (.struct true (some 0) (.cons "Topic" (-32768) none none .none (.str .str)
  (.cons "Partition" (-32768) none none .none (.prim .int32)
  Fields.nil)))
  Fields.nil)))

def S_DescribeTopicPartitionsResponse : Ty :=
  .struct false (some 0) (.cons "ThrottleMillis" (-32768) none none .none (.prim .int32)
  (.cons "Topics" (-32768) none none .none (.arr .normal (.struct false (some 0) (.cons "ErrorCode" (-32768) none none .none (.prim .int16)
  (.cons "Topic" (-32768) none none .none (.str (.nstr (-32768)))
  (.cons "TopicID" (-32768) none none .none (.prim .uuid)
  (.cons "IsInternal" (-32768) none none .none (.prim .bool)
  (.cons "Partitions" (-32768) none none .none (.arr .normal (.struct false (some 0) (.cons "ErrorCode" (-32768) none none .none (.prim .int16)
  (.cons "Partition" (-32768) none none .none (.prim .int32)
  (.cons "LeaderID" (-32768) none none .none (.prim .int32)
  (.cons "LeaderEpoch" (-32768) none none (.int (-1)) (.prim .int32)
  (.cons "Replicas" (-32768) none none .none (.arr .normal (.prim .int32))
  (.cons "ISR" (-32768) none none .none (.arr .normal (.prim .int32))
  (.cons "EligibleLeaderReplicas" (-32768) none none .none (.arr (.nullable (-32768)) (.prim .int32))
  (.cons "LastKnownELR" (-32768) none none .none (.arr (.nullable (-32768)) (.prim .int32))
  (.cons "OfflineReplicas" (-32768) none none .none (.arr .normal (.prim .int32))
  Fields.nil)))))))))))
  (.cons "AuthorizedOperations" (-32768) none none (.int (-2147483648)) (.prim .int32)
  Fields.nil))))))))
  (.cons "NextCursor" (-32768) none none .none (.struct true (some 0) (.cons "Topic" (-32768) none none .none (.str .str)
  (.cons "Partition" (-32768) none none .none (.prim .int32)
  Fields.nil)))
  Fields.nil)))

def S_ShareGroupHeartbeatRequest : Ty :=
  .struct false (some 0) (.cons "GroupID" (-32768) none none .none (.str .str)
  (.cons "MemberID" (-32768) none none .none (.str .str)
  (.cons "MemberEpoch" (-32768) none none .none (.prim .int32)
  (.cons "RackID" (-32768) none none .none (.str (.nstr (-32768)))
  (.cons "SubscribedTopicNames" (-32768) none none .none (.arr (.nullable (-32768)) (.str .str))
  Fields.nil)))))

def S_ShareGroupHeartbeatResponse : Ty :=
  .struct false (some 0) (.cons "ThrottleMillis" (-32768) none none .none (.prim .int32)
  (.cons "ErrorCode" (-32768) none none .none (.prim .int16)
  (.cons "ErrorMessage" (-32768) none none .none (.str (.nstr (-32768)))
  (.cons "MemberID" (-32768) none none .none (.str (.nstr (-32768)))
  (.cons "MemberEpoch" (-32768) none none .none (.prim .int32)
  (.cons "HeartbeatIntervalMillis" (-32768) none none .none (.prim .int32)
  (.cons "Assignment" (-32768) none none .none (.struct true (some 0) (.cons "TopicPartitions" (-32768) none none .none (.arr .normal (.struct false (some 0) (.cons "TopicID" (-32768) none none .none (.prim .uuid)
  (.cons "Partitions" (-32768) none none .none (.arr .normal (.prim .int32))
  Fields.nil))))
  Fields.nil))
  Fields.nil)))))))

def S_ShareGroupDescribeRequest : Ty :=
  .struct false (some 0) (.cons "GroupIDs" (-32768) none none .none (.arr .normal (.str .str))
  (.cons "IncludeAuthorizedOperations" (-32768) none none .none (.prim .bool)
  Fields.nil))

def S_ShareGroupDescribeResponse : Ty :=
  .struct false (some 0) (.cons "ThrottleMillis" (-32768) none none .none (.prim .int32)
  (.cons "Groups" (-32768) none none .none (.arr .normal (.struct false (some 0) (.cons "ErrorCode" (-32768) none none .none (.prim .int16)
  (.cons "ErrorMessage" (-32768) none none .none (.str (.nstr (-32768)))
  (.cons "GroupID" (-32768) none none .none (.str .str)
  (.cons "GroupState" (-32768) none none .none (.str .str)
  (.cons "GroupEpoch" (-32768) none none .none (.prim .int32)
  (.cons "AssignmentEpoch" (-32768) none none .none (.prim .int32)
  (.cons "Assignor" (-32768) none none .none (.str .str)
  (.cons "Members" (-32768) none none .none (.arr .normal (.struct false (some 0) (.cons "MemberID" (-32768) none none .none (.str .str)
  (.cons "RackID" (-32768) none none .none (.str (.nstr (-32768)))
  (.cons "MemberEpoch" (-32768) none none .none (.prim .int32)
  (.cons "ClientID" (-32768) none none .none (.str .str)
  (.cons "ClientHost" (-32768) none none .none (.str .str)
  (.cons "SubscribedTopicNames" (-32768) none none .none (.arr .normal (.str .str))
  (.cons "Assignment" (-32768) none none .none (.struct false (some 0) (.cons "TopicPartitions" (-32768) none none .none (.arr .normal (.struct false (some 0) (.cons "TopicID" (-32768) none none .none (.prim .uuid)
  (.cons "Topic" (-32768) none none .none (.str .str)
  (.cons "Partitions" (-32768) none none .none (.arr .normal (.prim .int32))
  Fields.nil)))))
  Fields.nil))
  Fields.nil)))))))))
  (.cons "AuthorizedOperations" (-32768) none none (.int (-2147483648)) (.prim .int32)
  Fields.nil)))))))))))
  Fields.nil))

def S_ShareFetchRequest : Ty :=
  .struct false (some 0) (.cons "GroupID" (-32768) none none .none (.str (.nstr (-32768)))
  (.cons "MemberID" (-32768) none none .none (.str (.nstr (-32768)))
  (.cons "ShareSessionEpoch" (-32768) none none .none (.prim .int32)
  (.cons "MaxWaitMillis" (-32768) none none .none (.prim .int32)
  (.cons "MinBytes" (-32768) none none .none (.prim .int32)
  (.cons "MaxBytes" (-32768) none none (.int 2147483647) (.prim .int32)
  (.cons "MaxRecords" 1 none none .none (.prim .int32)
  (.cons "BatchSize" 1 none none .none (.prim .int32)
  (.cons "ShareAcquireMode" 2 none none .none (.prim .int8)
  (.cons "IsRenewAck" 2 none none .none (.prim .bool)
  (.cons "Topics" (-32768) none none .none (.arr .normal (.struct false (some 0) (.cons "TopicID" (-32768) none none .none (.prim .uuid)
  (.cons "Partitions" (-32768) none none .none (.arr .normal (.struct false (some 0) (.cons "Partition" (-32768) none none .none (.prim .int32)
  (.cons "PartitionMaxBytes" 0 (some 0) none .none (.prim .int32)
  (.cons "AcknowledgementBatches" (-32768) none none .none (.arr .normal (.struct false (some 0) (.cons "FirstOffset" (-32768) none none .none (.prim .int64)
  (.cons "LastOffset" (-32768) none none .none (.prim .int64)
  (.cons "AcknowledgeTypes" (-32768) none none .none (.arr .normal (.prim .int8))
  Fields.nil)))))
  Fields.nil)))))
  Fields.nil))))
  (.cons "ForgottenTopicsData" (-32768) none none .none (.arr .normal (.struct false (some 0) (.cons "TopicID" (-32768) none none .none (.prim .uuid)
  (.cons "Partitions" (-32768) none none .none (.arr .normal (.prim .int32))
  Fields.nil))))
  Fields.nil))))))))))))

def S_ShareFetchResponse : Ty :=
  .struct false (some 0) (.cons "ThrottleMillis" (-32768) none none .none (.prim .int32)
  (.cons "ErrorCode" (-32768) none none .none (.prim .int16)
  (.cons "ErrorMessage" (-32768) none none .none (.str (.nstr (-32768)))
  (.cons "AcquisitionLockTimeoutMillis" 1 none none .none (.prim .int32)
  (.cons "Topics" (-32768) none none .none (.arr .normal (.struct false (some 0) (.cons "TopicID" (-32768) none none .none (.prim .uuid)
  (.cons "Partitions" (-32768) none none .none (.arr .normal (.struct false (some 0) (.cons "Partition" (-32768) none none .none (.prim .int32)
  (.cons "ErrorCode" (-32768) none none .none (.prim .int16)
  (.cons "ErrorMessage" (-32768) none none .none (.str (.nstr (-32768)))
  (.cons "AcknowledgeErrorCode" (-32768) none none .none (.prim .int16)
  (.cons "AcknowledgeErrorMessage" (-32768) none none .none (.str (.nstr (-32768)))
  (.cons "CurrentLeader" (-32768) none none .none (.struct false (some 0) (.cons "LeaderID" (-32768) none none .none (.prim .int32)
  (.cons "LeaderEpoch" (-32768) none none .none (.prim .int32)
  Fields.nil)))
  (.cons "Records" (-32768) none none .none (.str .nbytes)
  (.cons "AcquiredRecords" (-32768) none none .none (.arr .normal (.struct false (some 0) (.cons "FirstOffset" (-32768) none none .none (.prim .int64)
  (.cons "LastOffset" (-32768) none none .none (.prim .int64)
  (.cons "DeliveryCount" (-32768) none none .none (.prim .int16)
  Fields.nil)))))
  Fields.nil))))))))))
  Fields.nil))))
  (.cons "NodeEndpoints" (-32768) none none .none (.arr .normal (.struct false (some 0) (.cons "NodeID" (-32768) none none .none (.prim .int32)
  (.cons "Host" (-32768) none none .none (.str .str)
  (.cons "Port" (-32768) none none .none (.prim .int32)
  (.cons "Rack" (-32768) none none .none (.str (.nstr (-32768)))
  Fields.nil))))))
  Fields.nil))))))

def S_ShareAcknowledgeRequest : Ty :=
  .struct false (some 0) (.cons "GroupID" (-32768) none none .none (.str (.nstr (-32768)))
  (.cons "MemberID" (-32768) none none .none (.str (.nstr (-32768)))
  (.cons "ShareSessionEpoch" (-32768) none none .none (.prim .int32)
  (.cons "IsRenewAck" 2 none none .none (.prim .bool)
  (.cons "Topics" (-32768) none none .none (.arr .normal (.struct false (some 0) (.cons "TopicID" (-32768) none none .none (.prim .uuid)
  (.cons "Partitions" (-32768) none none .none (.arr .normal (.struct false (some 0) (.cons "Partition" (-32768) none none .none (.prim .int32)
  (.cons "AcknowledgementBatches" (-32768) none none .none (.arr .normal (.struct false (some 0) (.cons "FirstOffset" (-32768) none none .none (.prim .int64)
  (.cons "LastOffset" (-32768) none none .none (.prim .int64)
  (.cons "AcknowledgeTypes" (-32768) none none .none (.arr .normal (.prim .int8))
  Fields.nil)))))
  Fields.nil))))
  Fields.nil))))
  Fields.nil)))))

def S_ShareAcknowledgeResponse : Ty :=
  .struct false (some 0) (.cons "ThrottleMillis" (-32768) none none .none (.prim .int32)
  (.cons "ErrorCode" (-32768) none none .none (.prim .int16)
  (.cons "ErrorMessage" (-32768) none none .none (.str (.nstr (-32768)))
  (.cons "AcquisitionLockTimeoutMillis" 2 none none .none (.prim .int32)
  (.cons "Topics" (-32768) none none .none (.arr .normal (.struct false (some 0) (.cons "TopicID" (-32768) none none .none (.prim .uuid)
  (.cons "Partitions" (-32768) none none .none (.arr .normal (.struct false (some 0) (.cons "Partition" (-32768) none none .none (.prim .int32)
  (.cons "ErrorCode" (-32768) none none .none (.prim .int16)
  (.cons "ErrorMessage" (-32768) none none .none (.str (.nstr (-32768)))
  (.cons "CurrentLeader" (-32768) none none .none (.struct false (some 0) (.cons "LeaderID" (-32768) none none .none (.prim .int32)
  (.cons "LeaderEpoch" (-32768) none none .none (.prim .int32)
  Fields.nil)))
  Fields.nil))))))
  Fields.nil))))
  (.cons "NodeEndpoints" (-32768) none none .none (.arr .normal (.struct false (some 0) (.cons "NodeID" (-32768) none none .none (.prim .int32)
  (.cons "Host" (-32768) none none .none (.str .str)
  (.cons "Port" (-32768) none none .none (.prim .int32)
  (.cons "Rack" (-32768) none none .none (.str (.nstr (-32768)))
  Fields.nil))))))
  Fields.nil))))))

def S_AddRaftVoterRequest : Ty :=
  .struct false (some 0) (.cons "ClusterID" (-32768) none none .none (.str (.nstr (-32768)))
  (.cons "TimeoutMillis" (-32768) none none (.int 15000) (.prim .int32)
  (.cons "VoterID" (-32768) none none .none (.prim .int32)
  (.cons "VoterDirectoryID" (-32768) none none .none (.prim .uuid)
  (.cons "Listeners" (-32768) none none .none (.arr .normal (.struct false (some 0) (.cons "Name" (-32768) none none .none (.str .str)
  (.cons "Host" (-32768) none none .none (.str .str)
  (.cons "Port" (-32768) none none .none (.prim .uint16)
  Fields.nil)))))
  (.cons "AckWhenCommitted" 1 none none (.int 1) (.prim .bool)
  Fields.nil))))))

def S_AddRaftVoterResponse : Ty :=
  .struct false (some 0) (.cons "ThrottleMillis" (-32768) none none .none (.prim .int32)
  (.cons "ErrorCode" (-32768) none none .none (.prim .int16)
  (.cons "ErrorMessage" (-32768) none none .none (.str (.nstr (-32768)))
  Fields.nil)))

def S_RemoveRaftVoterRequest : Ty :=
  .struct false (some 0) (.cons "ClusterID" (-32768) none none .none (.str (.nstr (-32768)))
  (.cons "VoterID" (-32768) none none .none (.prim .int32)
  (.cons "VoterDirectoryID" (-32768) none none .none (.prim .uuid)
  Fields.nil)))

def S_RemoveRaftVoterResponse : Ty :=
  .struct false (some 0) (.cons "ThrottleMillis" (-32768) none none .none (.prim .int32)
  (.cons "ErrorCode" (-32768) none none .none (.prim .int16)
  (.cons "ErrorMessage" (-32768) none none .none (.str (.nstr (-32768)))
  Fields.nil)))

def S_UpdateRaftVoterRequest : Ty :=
  .struct false (some 0) (.cons "ClusterID" (-32768) none none .none (.str (.nstr (-32768)))
  (.cons "CurrentLeaderEpoch" (-32768) none none .none (.prim .int32)
  (.cons "VoterID" (-32768) none none .none (.prim .int32)
  (.cons "VoterDirectoryID" (-32768) none none .none (.prim .uuid)
  (.cons "Listeners" (-32768) none none .none (.arr .normal (.struct false (some 0) (.cons "Name" (-32768) none none .none (.str .str)
  (.cons "Host" (-32768) none none .none (.str .str)
  (.cons "Port" (-32768) none none .none (.prim .uint16)
  Fields.nil)))))
  (.cons "KRaftVersionFeature" (-32768) none none .none (.struct false (some 0) (.cons "MinSupportedVersion" (-32768) none none .none (.prim .int16)
  (.cons "MaxSupportedVersion" (-32768) none none .none (.prim .int16)
  Fields.nil)))
  Fields.nil))))))

def S_UpdateRaftVoterResponse : Ty :=
  .struct false (some 0) (.cons "ThrottleMillis" (-32768) none none .none (.prim .int32)
  (.cons "ErrorCode" (-32768) none none .none (.prim .int16)
  (.cons "CurrentLeader" (-32768) none (some 0) .none (.struct false (some 0) (.cons "LeaderID" (-32768) none none (.int (-1)) (.prim .int32)
  (.cons "LeaderEpoch" (-32768) none none (.int (-1)) (.prim .int32)
  (.cons "Host" (-32768) none none .none (.str .str)
  (.cons "Port" (-32768) none none .none (.prim .int32)
  Fields.nil)))))
  Fields.nil)))

def S_InitializeShareGroupStateRequest : Ty :=
  .struct false (some 0) (.cons "GroupID" (-32768) none none .none (.str .str)
  (.cons "Topics" (-32768) none none .none (.arr .normal (.struct false (some 0) (.cons "TopicID" (-32768) none none .none (.prim .uuid)
  (.cons "Partitions" (-32768) none none .none (.arr .normal (.struct false (some 0) (.cons "Partition" (-32768) none none .none (.prim .int32)
  (.cons "StateEpoch" (-32768) none none .none (.prim .int32)
  (.cons "StartOffset" (-32768) none none .none (.prim .int64)
  Fields.nil)))))
  Fields.nil))))
  Fields.nil))

def S_InitializeShareGroupStateResponse : Ty :=
  .struct false (some 0) (.cons "Topics" (-32768) none none .none (.arr .normal (.struct false (some 0) (.cons "TopicID" (-32768) none none .none (.prim .uuid)
  (.cons "Partitions" (-32768) none none .none (.arr .normal (.struct false (some 0) (.cons "Partition" (-32768) none none .none (.prim .int32)
  (.cons "ErrorCode" (-32768) none none .none (.prim .int16)
  (.cons "ErrorMessage" (-32768) none none .none (.str (.nstr (-32768)))
  Fields.nil)))))
  Fields.nil))))
  Fields.nil)

def S_ReadShareGroupStateRequest : Ty :=
  .struct false (some 0) (.cons "GroupID" (-32768) none none .none (.str .str)
  (.cons "Topics" (-32768) none none .none (.arr .normal (.struct false (some 0) (.cons "TopicID" (-32768) none none .none (.prim .uuid)
  (.cons "Partitions" (-32768) none none .none (.arr .normal (.struct false (some 0) (.cons "Partition" (-32768) none none .none (.prim .int32)
  (.cons "LeaderEpoch" (-32768) none none .none (.prim .int32)
  Fields.nil))))
  Fields.nil))))
  Fields.nil))

def S_ReadShareGroupStateResponse : Ty :=
  .struct false (some 0) (.cons "Topics" (-32768) none none .none (.arr .normal (.struct false (some 0) (.cons "TopicID" (-32768) none none .none (.prim .uuid)
  (.cons "Partitions" (-32768) none none .none (.arr .normal (.struct false (some 0) (.cons "Partition" (-32768) none none .none (.prim .int32)
  (.cons "ErrorCode" (-32768) none none .none (.prim .int16)
  (.cons "ErrorMessage" (-32768) none none .none (.str (.nstr (-32768)))
  (.cons "StateEpoch" (-32768) none none .none (.prim .int32)
  (.cons "StartOffset" (-32768) none none .none (.prim .int64)
  (.cons "StateBatches" (-32768) none none .none (.arr .normal (.struct false (some 0) (.cons "FirstOffset" (-32768) none none .none (.prim .int64)
  (.cons "LastOffset" (-32768) none none .none (.prim .int64)
  (.cons "DeliveryState" (-32768) none none .none (.prim .int8)
  (.cons "DeliveryCount" (-32768) none none .none (.prim .int16)
  Fields.nil))))))
  Fields.nil))))))))
  Fields.nil))))
  Fields.nil)

def S_WriteShareGroupStateRequest : Ty :=
  .struct false (some 0) (.cons "GroupID" (-32768) none none .none (.str .str)
  (.cons "Topics" (-32768) none none .none (.arr .normal (.struct false (some 0) (.cons "TopicID" (-32768) none none .none (.prim .uuid)
  (.cons "Partitions" (-32768) none none .none (.arr .normal (.struct false (some 0) (.cons "Partition" (-32768) none none .none (.prim .int32)
  (.cons "StateEpoch" (-32768) none none .none (.prim .int32)
  (.cons "LeaderEpoch" (-32768) none none .none (.prim .int32)
  (.cons "StartOffset" (-32768) none none .none (.prim .int64)
  (.cons "DeliveryCompleteCount" 1 none none (.int (-1)) (.prim .int32)
  (.cons "StateBatches" (-32768) none none .none (.arr .normal (.struct false (some 0) (.cons "FirstOffset" (-32768) none none .none (.prim .int64)
  (.cons "LastOffset" (-32768) none none .none (.prim .int64)
  (.cons "DeliveryState" (-32768) none none .none (.prim .int8)
  (.cons "DeliveryCount" (-32768) none none .none (.prim .int16)
  Fields.nil))))))
  Fields.nil))))))))
  Fields.nil))))
  Fields.nil))

def S_WriteShareGroupStateResponse : Ty :=
  .struct false (some 0) (.cons "Topics" (-32768) none none .none (.arr .normal (.struct false (some 0) (.cons "TopicID" (-32768) none none .none (.prim .uuid)
  (.cons "Partitions" (-32768) none none .none (.arr .normal (.struct false (some 0) (.cons "Partition" (-32768) none none .none (.prim .int32)
  (.cons "ErrorCode" (-32768) none none .none (.prim .int16)
  (.cons "ErrorMessage" (-32768) none none .none (.str (.nstr (-32768)))
  Fields.nil)))))
  Fields.nil))))
  Fields.nil)

def S_DeleteShareGroupStateRequest : Ty :=
  .struct false (some 0) (.cons "GroupID" (-32768) none none .none (.str .str)
  (.cons "Topics" (-32768) none none .none (.arr .normal (.struct false (some 0) (.cons "TopicID" (-32768) none none .none (.prim .uuid)
  (.cons "Partitions" (-32768) none none .none (.arr .normal (.struct false (some 0) (.cons "Partition" (-32768) none none .none (.prim .int32)
  Fields.nil)))
  Fields.nil))))
  Fields.nil))

def S_DeleteShareGroupStateResponse : Ty :=
  .struct false (some 0) (.cons "Topics" (-32768) none none .none (.arr .normal (.struct false (some 0) (.cons "TopicID" (-32768) none none .none (.prim .uuid)
  (.cons "Partitions" (-32768) none none .none (.arr .normal (.struct false (some 0) (.cons "Partition" (-32768) none none .none (.prim .int32)
  (.cons "ErrorCode" (-32768) none none .none (.prim .int16)
  (.cons "ErrorMessage" (-32768) none none .none (.str (.nstr (-32768)))
  Fields.nil)))))
  Fields.nil))))
  Fields.nil)

def S_ReadShareGroupStateSummaryRequest : Ty :=
  .struct false (some 0) (.cons "GroupID" (-32768) none none .none (.str .str)
  (.cons "Topics" (-32768) none none .none (.arr .normal (.struct false (some 0) (.cons "TopicID" (-32768) none none .none (.prim .uuid)
  (.cons "Partitions" (-32768) none none .none (.arr .normal (.struct false (some 0) (.cons "Partition" (-32768) none none .none (.prim .int32)
  (.cons "LeaderEpoch" (-32768) none none .none (.prim .int32)
  Fields.nil))))
  Fields.nil))))
  Fields.nil))

def S_ReadShareGroupStateSummaryResponse : Ty :=
  .struct false (some 0) (.cons "Topics" (-32768) none none .none (.arr .normal (.struct false (some 0) (.cons "TopicID" (-32768) none none .none (.prim .uuid)
  (.cons "Partitions" (-32768) none none .none (.arr .normal (.struct false (some 0) (.cons "Partition" (-32768) none none .none (.prim .int32)
  (.cons "ErrorCode" (-32768) none none .none (.prim .int16)
  (.cons "ErrorMessage" (-32768) none none .none (.str (.nstr (-32768)))
  (.cons "StateEpoch" (-32768) none none .none (.prim .int32)
  (.cons "LeaderEpoch" (-32768) none none .none (.prim .int32)
  (.cons "StartOffset" (-32768) none none .none (.prim .int64)
  (.cons "DeliveryCompleteCount" 1 none none (.int (-1)) (.prim .int32)
  Fields.nil)))))))))
  Fields.nil))))
  Fields.nil)

def S_TaskIDs : Ty :=
  .struct false (some 0) (.cons "SubtopologyID" (-32768) none none .none (.str .str)
  (.cons "Partitions" (-32768) none none .none (.arr .normal (.prim .int32))
  Fields.nil))

def S_TopicInfo : Ty :=
  .struct false (some 0) (.cons "Topic" (-32768) none none .none (.str .str)
  (.cons "NumPartitions" (-32768) none none .none (.prim .int32)
  (.cons "ReplicationFactor" (-32768) none none .none (.prim .int16)
  (.cons "Configs" (-32768) none none .none (.arr .normal (.struct false (some 0) (.cons "Key" (-32768) none none .none (.str .str)
  (.cons "Value" (-32768) none none .none (.str .str)
  Fields.nil))))
  Fields.nil))))

def S_Endpoint : Ty :=
  .struct false (some 0) (.cons "Host" (-32768) none none .none (.str .str)
  (.cons "Port" (-32768) none none .none (.prim .uint16)
  Fields.nil))

def S_TaskOffset : Ty :=
  .struct false (some 0) (.cons "SubtopologyID" (-32768) none none .none (.str .str)
  (.cons "Partition" (-32768) none none .none (.prim .int32)
  (.cons "Offset" (-32768) none none .none (.prim .int64)
  Fields.nil)))

def S_StreamsGroupHeartbeatRequest : Ty :=
  .struct false (some 0) (.cons "Group" (-32768) none none .none (.str .str)
  (.cons "MemberID" (-32768) none none .none (.str .str)
  (.cons "MemberEpoch" (-32768) none none .none (.prim .int32)
  (.cons "EndpointInformationEpoch" (-32768) none none .none (.prim .int32)
  (.cons "InstanceID" (-32768) none none .none (.str (.nstr (-32768)))
  (.cons "RackID" (-32768) none none .none (.str (.nstr (-32768)))
  (.cons "RebalanceTimeoutMillis" (-32768) none none (.int (-1)) (.prim .int32)
  (.cons "Topology" (-32768) none none .none (.struct true (some 0) (.cons "Epoch" (-32768) none none .none (.prim .int32)
  (.cons "Subtopologies" (-32768) none none .none (.arr .normal (.struct false (some 0) (.cons "SubtopologyID" (-32768) none none .none (.str .str)
  (.cons "SourceTopics" (-32768) none none .none (.arr .normal (.str .str))
  (.cons "SourceTopicRegex" (-32768) none none .none (.arr .normal (.str .str))
  (.cons "StateChangelogTopics" (-32768) none none .none (.arr .normal (S_TopicInfo))
  (.cons "RepartitionSinkTopics" (-32768) none none .none (.arr .normal (.str .str))
  (.cons "RepartitionSourceTopics" (-32768) none none .none (.arr .normal (S_TopicInfo))
  (.cons "CopartitionGroups" (-32768) none none .none (.arr .normal (.struct false (some 0) (.cons "SourceTopics" (-32768) none none .none (.arr .normal (.prim .int16))
  (.cons "SourceTopicRegex" (-32768) none none .none (.arr .normal (.prim .int16))
  (.cons "RepartitionSourceTopics" (-32768) none none .none (.arr .normal (.prim .int16))
  Fields.nil)))))
  Fields.nil)))))))))
  Fields.nil)))
  (.cons "ActiveTasks" (-32768) none none .none (.arr (.nullable (-32768)) (S_TaskIDs))
  (.cons "StandbyTasks" (-32768) none none .none (.arr (.nullable (-32768)) (S_TaskIDs))
  (.cons "WarmupTasks" (-32768) none none .none (.arr (.nullable (-32768)) (S_TaskIDs))
  (.cons "ProcessID" (-32768) none none .none (.str (.nstr (-32768)))
  (.cons "UserEndpoint" (-32768) none none .none (.struct true (some 0) (.cons "Host" (-32768) none none .none (.str .str)
  (.cons "Port" (-32768) none none .none (.prim .uint16)
  Fields.nil)))
  (.cons "ClientTags" (-32768) none none .none (.arr (.nullable (-32768)) (.struct false (some 0) (.cons "Key" (-32768) none none .none (.str .str)
  (.cons "Value" (-32768) none none .none (.str .str)
  Fields.nil))))
  (.cons "TaskOffsets" (-32768) none none .none (.arr (.nullable (-32768)) (S_TaskOffset))
  (.cons "TaskEndOffsets" (-32768) none none .none (.arr (.nullable (-32768)) (S_TaskOffset))
  (.cons "ShutdownApplication" (-32768) none none .none (.prim .bool)
  Fields.nil)))))))))))))))))

def S_StreamsGroupHeartbeatResponse : Ty :=
  .struct false (some 0) (.cons "ThrottleMillis" (-32768) none none .none (.prim .int32)
  (.cons "ErrorCode" (-32768) none none .none (.prim .int16)
  (.cons "ErrorMessage" (-32768) none none .none (.str (.nstr (-32768)))
  (.cons "MemberID" (-32768) none none .none (.str .str)
  (.cons "MemberEpoch" (-32768) none none .none (.prim .int32)
  (.cons "HeartbeatIntervalMillis" (-32768) none none .none (.prim .int32)
  (.cons "AcceptableRecoveryLag" (-32768) none none .none (.prim .int32)
  (.cons "TaskOffsetIntervalMillis" (-32768) none none .none (.prim .int32)
  (.cons "Status" (-32768) none none .none (.arr (.nullable (-32768)) (.struct false (some 0) (.cons "StatusCode" (-32768) none none .none (.prim .int8)
  (.cons "StatusDetail" (-32768) none none .none (.str .str)
  Fields.nil))))
  (.cons "ActiveTasks" (-32768) none none .none (.arr (.nullable (-32768)) (S_TaskIDs))
  (.cons "StandbyTasks" (-32768) none none .none (.arr (.nullable (-32768)) (S_TaskIDs))
  (.cons "WarmupTasks" (-32768) none none .none (.arr (.nullable (-32768)) (S_TaskIDs))
  (.cons "EndpointInformationEpoch" (-32768) none none .none (.prim .int32)
  (.cons "PartitionsByUserEndpoint" (-32768) none none .none (.arr (.nullable (-32768)) (.struct false (some 0) (.cons "UserEndpoint" (-32768) none none .none (S_Endpoint)
  (.cons "ActivePartitions" (-32768) none none .none (.arr .normal (.struct false (some 0) (.cons "Topic" (-32768) none none .none (.str .str)
  (.cons "Partitions" (-32768) none none .none (.arr .normal (.prim .int32))
  Fields.nil))))
  (.cons "StandbyPartitions" (-32768) none none .none (.arr .normal (.struct false (some 0) (.cons "Topic" (-32768) none none .none (.str .str)
  (.cons "Partitions" (-32768) none none .none (.arr .normal (.prim .int32))
  Fields.nil))))
  Fields.nil)))))
  Fields.nil))))))))))))))

def S_StreamsAssignment : Ty :=
  .struct false (some 0) (.cons "ActiveTasks" (-32768) none none .none (.arr .normal (S_TaskIDs))
  (.cons "StandbyTasks" (-32768) none none .none (.arr .normal (S_TaskIDs))
  (.cons "WarmupTasks" (-32768) none none .none (.arr .normal (S_TaskIDs))
  Fields.nil)))

def S_StreamsGroupDescribeRequest : Ty :=
  .struct false (some 0) (.cons "Groups" (-32768) none none .none (.arr .normal (.str .str))
  (.cons "IncludeAuthorizedOperations" (-32768) none none .none (.prim .bool)
  Fields.nil))

def S_StreamsGroupDescribeResponse : Ty :=
  .struct false (some 0) (.cons "ThrottleMillis" (-32768) none none .none (.prim .int32)
  (.cons "Groups" (-32768) none none .none (.arr .normal (.struct false (some 0) (.cons "ErrorCode" (-32768) none none .none (.prim .int16)
  (.cons "ErrorMessage" (-32768) none none .none (.str (.nstr (-32768)))
  (.cons "Group" (-32768) none none .none (.str .str)
  (.cons "State" (-32768) none none .none (.str .str)
  (.cons "Epoch" (-32768) none none .none (.prim .int32)
  (.cons "AssignmentEpoch" (-32768) none none .none (.prim .int32)
  (.cons "Topology" (-32768) none none .none (.struct true (some 0) (.cons "Epoch" (-32768) none none .none (.prim .int32)
  (.cons "Subtopologies" (-32768) none none .none (.arr (.nullable (-32768)) (.struct false (some 0) (.cons "SubtopologyID" (-32768) none none .none (.str .str)
  (.cons "SourceTopics" (-32768) none none .none (.arr .normal (.str .str))
  (.cons "RepartitionSinkTopics" (-32768) none none .none (.arr .normal (.str .str))
  (.cons "StateChangelogTopics" (-32768) none none .none (.arr .normal (S_TopicInfo))
  (.cons "RepartitionSourceTopics" (-32768) none none .none (.arr .normal (S_TopicInfo))
  Fields.nil)))))))
  Fields.nil)))
  (.cons "Members" (-32768) none none .none (.arr .normal (.struct false (some 0) (.cons "MemberID" (-32768) none none .none (.str .str)
  (.cons "MemberEpoch" (-32768) none none .none (.prim .int32)
  (.cons "InstanceID" (-32768) none none .none (.str (.nstr (-32768)))
  (.cons "RackID" (-32768) none none .none (.str (.nstr (-32768)))
  (.cons "ClientID" (-32768) none none .none (.str .str)
  (.cons "ClientHost" (-32768) none none .none (.str .str)
  (.cons "TopologyEpoch" (-32768) none none .none (.prim .int32)
  (.cons "ProcessID" (-32768) none none .none (.str .str)
  (.cons "UserEndpoint" (-32768) none none .none (.struct true (some 0) (.cons "Host" (-32768) none none .none (.str .str)
  (.cons "Port" (-32768) none none .none (.prim .uint16)
  Fields.nil)))
  (.cons "ClientTags" (-32768) none none .none (.arr .normal (.struct false (some 0) (.cons "Key" (-32768) none none .none (.str .str)
  (.cons "Value" (-32768) none none .none (.str .str)
  Fields.nil))))
  (.cons "TaskOffsets" (-32768) none none .none (.arr .normal (S_TaskOffset))
  (.cons "TaskEndOffsets" (-32768) none none .none (.arr .normal (S_TaskOffset))
  (.cons "Assignment" (-32768) none none .none (S_StreamsAssignment)
  (.cons "TargetAssignment" (-32768) none none .none (S_StreamsAssignment)
  (.cons "IsClassic" (-32768) none none .none (.prim .bool)
  Fields.nil)))))))))))))))))
  (.cons "AuthorizedOperations" (-32768) none none (.int (-2147483648)) (.prim .int32)
  Fields.nil)))))))))))
  Fields.nil))

def S_DescribeShareGroupOffsetsRequest : Ty :=
  .struct false (some 0) (.cons "Groups" (-32768) none none .none (.arr .normal (.struct false (some 0) (.cons "GroupID" (-32768) none none .none (.str .str)
  (.cons "Topics" (-32768) none none .none (.arr (.nullable (-32768)) (.struct false (some 0) (.cons "Topic" (-32768) none none .none (.str .str)
  (.cons "Partitions" (-32768) none none .none (.arr .normal (.prim .int32))
  Fields.nil))))
  Fields.nil))))
  Fields.nil)

def S_DescribeShareGroupOffsetsResponse : Ty :=
  .struct false (some 0) (.cons "ThrottleMillis" (-32768) none none .none (.prim .int32)
  (.cons "Groups" (-32768) none none .none (.arr .normal (.struct false (some 0) (.cons "GroupID" (-32768) none none .none (.str .str)
  (.cons "Topics" (-32768) none none .none (.arr .normal (.struct false (some 0) (.cons "Topic" (-32768) none none .none (.str .str)
  (.cons "TopicID" (-32768) none none .none (.prim .uuid)
  (.cons "Partitions" (-32768) none none .none (.arr .normal (.struct false (some 0) (.cons "Partition" (-32768) none none .none (.prim .int32)
  (.cons "StartOffset" (-32768) none none .none (.prim .int64)
  (.cons "LeaderEpoch" (-32768) none none .none (.prim .int32)
  (.cons "Lag" 1 none none (.int (-1)) (.prim .int64)
  (.cons "ErrorCode" (-32768) none none .none (.prim .int16)
  (.cons "ErrorMessage" (-32768) none none .none (.str (.nstr (-32768)))
  Fields.nil))))))))
  Fields.nil)))))
  (.cons "ErrorCode" (-32768) none none .none (.prim .int16)
  (.cons "ErrorMessage" (-32768) none none .none (.str (.nstr (-32768)))
  Fields.nil))))))
  Fields.nil))

def S_AlterShareGroupOffsetsRequest : Ty :=
  .struct false (some 0) (.cons "GroupID" (-32768) none none .none (.str .str)
  (.cons "Topics" (-32768) none none .none (.arr .normal (.struct false (some 0) (.cons "Topic" (-32768) none none .none (.str .str)
  (.cons "Partitions" (-32768) none none .none (.arr .normal (.struct false (some 0) (.cons "Partition" (-32768) none none .none (.prim .int32)
  (.cons "StartOffset" (-32768) none none .none (.prim .int64)
  Fields.nil))))
  Fields.nil))))
  Fields.nil))

def S_AlterShareGroupOffsetsResponse : Ty :=
  .struct false (some 0) (.cons "ThrottleMillis" (-32768) none none .none (.prim .int32)
  (.cons "ErrorCode" (-32768) none none .none (.prim .int16)
  (.cons "ErrorMessage" (-32768) none none .none (.str (.nstr (-32768)))
  (.cons "Topics" (-32768) none none .none (.arr .normal (.struct false (some 0) (.cons "Topic" (-32768) none none .none (.str .str)
  (.cons "TopicID" (-32768) none none .none (.prim .uuid)
  (.cons "Partitions" (-32768) none none .none (.arr .normal (.struct false (some 0) (.cons "Partition" (-32768) none none .none (.prim .int32)
  (.cons "ErrorCode" (-32768) none none .none (.prim .int16)
  (.cons "ErrorMessage" (-32768) none none .none (.str (.nstr (-32768)))
  Fields.nil)))))
  Fields.nil)))))
  Fields.nil))))

def S_DeleteShareGroupOffsetsRequest : Ty :=
  .struct false (some 0) (.cons "GroupID" (-32768) none none .none (.str .str)
  (.cons "Topics" (-32768) none none .none (.arr .normal (.struct false (some 0) (.cons "Topic" (-32768) none none .none (.str .str)
  Fields.nil)))
  Fields.nil))

def S_DeleteShareGroupOffsetsResponse : Ty :=
  .struct false (some 0) (.cons "ThrottleMillis" (-32768) none none .none (.prim .int32)
  (.cons "ErrorCode" (-32768) none none .none (.prim .int16)
  (.cons "ErrorMessage" (-32768) none none .none (.str (.nstr (-32768)))
  (.cons "Topics" (-32768) none none .none (.arr .normal (.struct false (some 0) (.cons "Topic" (-32768) none none .none (.str .str)
  (.cons "TopicID" (-32768) none none .none (.prim .uuid)
  (.cons "ErrorCode" (-32768) none none .none (.prim .int16)
  (.cons "ErrorMessage" (-32768) none none .none (.str (.nstr (-32768)))
  Fields.nil))))))
  Fields.nil))))

def S_MessageV0 : Ty :=
  .struct false none (.cons "Offset" (-32768) none none .none (.prim .int64)
  (.cons "MessageSize" (-32768) none none .none (.prim .int32)
  (.cons "CRC" (-32768) none none .none (.prim .int32)
  (.cons "Magic" (-32768) none none .none (.prim .int8)
  (.cons "Attributes" (-32768) none none .none (.prim .int8)
  (.cons "Key" (-32768) none none .none (.str .nbytes)
  (.cons "Value" (-32768) none none .none (.str .nbytes)
  Fields.nil)))))))

def S_MessageV1 : Ty :=
  .struct false none (.cons "Offset" (-32768) none none .none (.prim .int64)
  (.cons "MessageSize" (-32768) none none .none (.prim .int32)
  (.cons "CRC" (-32768) none none .none (.prim .int32)
  (.cons "Magic" (-32768) none none .none (.prim .int8)
  (.cons "Attributes" (-32768) none none .none (.prim .int8)
  (.cons "Timestamp" (-32768) none none .none (.prim .int64)
  (.cons "Key" (-32768) none none .none (.str .nbytes)
  (.cons "Value" (-32768) none none .none (.str .nbytes)
  Fields.nil))))))))

def S_Header : Ty :=
  .struct false none (.cons "Key" (-32768) none none .none (.str .vstr)
  (.cons "Value" (-32768) none none .none (.str .vbytes)
  Fields.nil))

def S_Record : Ty :=
  .struct false none (.cons "Length" (-32768) none none .none (.prim .varint)
  (.cons "Attributes" (-32768) none none .none (.prim .int8)
  (.cons "TimestampDelta" (-32768) none none .none (.prim .varlong)
  (.cons "OffsetDelta" (-32768) none none .none (.prim .varint)
  (.cons "Key" (-32768) none none .none (.str .vbytes)
  (.cons "Value" (-32768) none none .none (.str .vbytes)
  (.cons "Headers" (-32768) none none .none (.arr .varint (S_Header))
  Fields.nil)))))))

def S_RecordBatch : Ty :=
  .struct false none (.cons "FirstOffset" (-32768) none none .none (.prim .int64)
  (.cons "Length" (-32768) none none .none (.prim .int32)
  (.cons "PartitionLeaderEpoch" (-32768) none none .none (.prim .int32)
  (.cons "Magic" (-32768) none none .none (.prim .int8)
  (.cons "CRC" (-32768) none none .none (.prim .int32)
  (.cons "Attributes" (-32768) none none .none (.prim .int16)
  (.cons "LastOffsetDelta" (-32768) none none .none (.prim .int32)
  (.cons "FirstTimestamp" (-32768) none none .none (.prim .int64)
  (.cons "MaxTimestamp" (-32768) none none .none (.prim .int64)
  (.cons "ProducerID" (-32768) none none .none (.prim .int64)
  (.cons "ProducerEpoch" (-32768) none none .none (.prim .int16)
  (.cons "FirstSequence" (-32768) none none .none (.prim .int32)
  (.cons "NumRecords" (-32768) none none .none (.prim .int32)
  Fields.nil)))))))))))))

def S_OffsetCommitKey : Ty :=
  .struct false none (.cons "Version" (-32768) none none .none (.prim .int16)
  (.cons "Group" (-32768) none none .none (.str .str)
  (.cons "Topic" (-32768) none none .none (.str .str)
  (.cons "Partition" (-32768) none none .none (.prim .int32)
  Fields.nil))))

def S_OffsetCommitValue : Ty :=
  .struct false (some 4) (.cons "Version" (-32768) none none .none (.prim .int16)
  (.cons "Offset" (-32768) none none .none (.prim .int64)
  (.cons "LeaderEpoch" 3 none none .none (.prim .int32)
  (.cons "Metadata" (-32768) none none .none (.str .str)
  (.cons "CommitTimestamp" (-32768) none none .none (.prim .int64)
  (.cons "ExpireTimestamp" 1 (some 1) none .none (.prim .int64)
  (.cons "TopicID" (-32768) none (some 0) .none (.prim .uuid)
  Fields.nil)))))))

def S_GroupMetadataKey : Ty :=
  .struct false none (.cons "Version" (-32768) none none .none (.prim .int16)
  (.cons "Group" (-32768) none none .none (.str .str)
  Fields.nil))

def S_GroupMetadataValue : Ty :=
  .struct false (some 4) (.cons "Version" (-32768) none none .none (.prim .int16)
  (.cons "ProtocolType" (-32768) none none .none (.str .str)
  (.cons "Generation" (-32768) none none .none (.prim .int32)
  (.cons "Protocol" (-32768) none none .none (.str (.nstr (-32768)))
  (.cons "Leader" (-32768) none none .none (.str (.nstr (-32768)))
  (.cons "CurrentStateTimestamp" 2 none none (.int (-1)) (.prim .int64)
  (.cons "Members" (-32768) none none .none (.arr .normal (.struct false (some 4) (.cons "MemberID" (-32768) none none .none (.str .str)
  (.cons "InstanceID" 3 none none .none (.str (.nstr (-32768)))
  (.cons "ClientID" (-32768) none none .none (.str .str)
  (.cons "ClientHost" (-32768) none none .none (.str .str)
  (.cons "RebalanceTimeoutMillis" 1 none none (.int (-1)) (.prim .int32)
  (.cons "SessionTimeoutMillis" (-32768) none none .none (.prim .int32)
  (.cons "Subscription" (-32768) none none .none (.str .bytes)
  (.cons "Assignment" (-32768) none none .none (.str .bytes)
  Fields.nil))))))))))
  Fields.nil)))))))

def S_TxnMetadataKey : Ty :=
  .struct false none (.cons "Version" (-32768) none none .none (.prim .int16)
  (.cons "TransactionalID" (-32768) none none .none (.str .str)
  Fields.nil))

def S_TxnMetadataValue : Ty :=
  .struct false (some 1) (.cons "Version" (-32768) none none .none (.prim .int16)
  (.cons "ProducerID" (-32768) none none .none (.prim .int64)
  (.cons "ProducerEpoch" (-32768) none none .none (.prim .int16)
  (.cons "TimeoutMillis" (-32768) none none .none (.prim .int32)
  (.cons "State" (-32768) none none .none (.prim .int8)
  (.cons "Topics" (-32768) none none .none (.arr (.nullable (-32768)) (.struct false (some 1) (.cons "Topic" (-32768) none none .none (.str .str)
  (.cons "Partitions" (-32768) none none .none (.arr .normal (.prim .int32))
  Fields.nil))))
  (.cons "LastUpdateTimestamp" (-32768) none none .none (.prim .int64)
  (.cons "StartTimestamp" (-32768) none none .none (.prim .int64)
  (.cons "PreviousProducerID" (-32768) none (some 0) (.int (-1)) (.prim .int64)
  (.cons "NextProducerID" (-32768) none (some 1) (.int (-1)) (.prim .int64)
  (.cons "ClientTransactionVersion" (-32768) none (some 2) .none (.prim .int16)
  (.cons "NextProducerEpoch" (-32768) none (some 3) (.int (-1)) (.prim .int16)
  Fields.nil))))))))))))

def S_StickyMemberMetadata : Ty :=
  .struct false none (.cons "CurrentAssignment" (-32768) none none .none (.arr .normal (.struct false none (.cons "Topic" (-32768) none none .none (.str .str)
  (.cons "Partitions" (-32768) none none .none (.arr .normal (.prim .int32))
  Fields.nil))))
  (.cons "Generation" 1 none none (.int (-1)) (.prim .int32)
  Fields.nil))

def S_ConsumerMemberMetadata : Ty :=
  .struct false none (.cons "Version" (-32768) none none .none (.prim .int16)
  (.cons "Topics" (-32768) none none .none (.arr .normal (.str .str))
  (.cons "UserData" (-32768) none none .none (.str .nbytes)
  (.cons "OwnedPartitions" 1 none none .none (.arr .normal (.struct false none (.cons "Topic" (-32768) none none .none (.str .str)
  (.cons "Partitions" (-32768) none none .none (.arr .normal (.prim .int32))
  Fields.nil))))
  (.cons "Generation" 2 none none (.int (-1)) (.prim .int32)
  (.cons "Rack" 3 none none .none (.str (.nstr (-32768)))
  Fields.nil))))))

def S_ConsumerMemberAssignment : Ty :=
  .struct false none (.cons "Version" (-32768) none none .none (.prim .int16)
  (.cons "Topics" (-32768) none none .none (.arr .normal (.struct false none (.cons "Topic" (-32768) none none .none (.str .str)
  (.cons "Partitions" (-32768) none none .none (.arr .normal (.prim .int32))
  Fields.nil))))
  (.cons "UserData" (-32768) none none .none (.str .nbytes)
  Fields.nil)))

def S_ConnectMemberMetadata : Ty :=
  .struct false none (.cons "Version" (-32768) none none .none (.prim .int16)
  (.cons "URL" (-32768) none none .none (.str .str)
  (.cons "ConfigOffset" (-32768) none none .none (.prim .int64)
  (.cons "CurrentAssignment" 1 none none .none (.str .nbytes)
  Fields.nil))))

def S_ConnectMemberAssignment : Ty :=
  .struct false none (.cons "Version" (-32768) none none .none (.prim .int16)
  (.cons "Error" (-32768) none none .none (.prim .int16)
  (.cons "Leader" (-32768) none none .none (.str .str)
  (.cons "LeaderURL" (-32768) none none .none (.str .str)
  (.cons "ConfigOffset" (-32768) none none .none (.prim .int64)
  (.cons "Assignment" (-32768) none none .none (.arr .normal (.struct false none (.cons "Connector" (-32768) none none .none (.str .str)
  (.cons "Tasks" (-32768) none none .none (.arr .normal (.prim .int16))
  Fields.nil))))
  (.cons "Revoked" 1 none none .none (.arr .normal (.struct false none (.cons "Connector" (-32768) none none .none (.str .str)
  (.cons "Tasks" (-32768) none none .none (.arr .normal (.prim .int16))
  Fields.nil))))
  (.cons "ScheduledDelay" 1 none none .none (.prim .int32)
  Fields.nil))))))))

def S_DefaultPrincipalData : Ty :=
  .struct false (some 0) (.cons "Version" (-32768) none none .none (.prim .int16)
  (.cons "Type" (-32768) none none .none (.str .str)
  (.cons "Name" (-32768) none none .none (.str .str)
  (.cons "TokenAuthenticated" (-32768) none none .none (.prim .bool)
  Fields.nil))))

def S_ControlRecordKey : Ty :=
  .struct false none (.cons "Version" (-32768) none none .none (.prim .int16)
  (.cons "Type" (-32768) none none .none (.prim .int16)
  Fields.nil))

def S_EndTxnMarker : Ty :=
  .struct false none (.cons "Version" (-32768) none none .none (.prim .int16)
  (.cons "CoordinatorEpoch" (-32768) none none .none (.prim .int32)
  Fields.nil))

def S_LeaderChangeMessageVoter : Ty :=
  .struct false (some 0) (.cons "VoterID" (-32768) none none .none (.prim .int32)
  (.cons "VoterDirectoryID" 1 none none .none (.prim .uuid)
  Fields.nil))

def S_LeaderChangeMessage : Ty :=
  .struct false (some 0) (.cons "Version" (-32768) none none .none (.prim .int16)
  (.cons "LeaderID" (-32768) none none .none (.prim .int32)
  (.cons "Voters" (-32768) none none .none (.arr .normal (S_LeaderChangeMessageVoter))
  (.cons "GrantingVoters" (-32768) none none .none (.arr .normal (S_LeaderChangeMessageVoter))
  Fields.nil))))

def all : List Top := [
  { name := "ProduceRequest", kind := "req", key := 0, maxVersion := 13, withVersion := false, raw := none, ty := S_ProduceRequest },
  { name := "ProduceResponse", kind := "resp", key := 0, maxVersion := 13, withVersion := false, raw := none, ty := S_ProduceResponse },
  { name := "FetchRequest", kind := "req", key := 1, maxVersion := 18, withVersion := false, raw := none, ty := S_FetchRequest },
  { name := "FetchResponse", kind := "resp", key := 1, maxVersion := 18, withVersion := false, raw := none, ty := S_FetchResponse },
  { name := "ListOffsetsRequest", kind := "req", key := 2, maxVersion := 11, withVersion := false, raw := none, ty := S_ListOffsetsRequest },
  { name := "ListOffsetsResponse", kind := "resp", key := 2, maxVersion := 11, withVersion := false, raw := none, ty := S_ListOffsetsResponse },
  { name := "MetadataRequest", kind := "req", key := 3, maxVersion := 13, withVersion := false, raw := none, ty := S_MetadataRequest },
  { name := "MetadataResponse", kind := "resp", key := 3, maxVersion := 13, withVersion := false, raw := none, ty := S_MetadataResponse },
  { name := "LeaderAndISRRequestTopicPartition", kind := "noenc", key := (-1), maxVersion := 6, withVersion := false, raw := none, ty := S_LeaderAndISRRequestTopicPartition },
  { name := "LeaderAndISRResponseTopicPartition", kind := "noenc", key := (-1), maxVersion := 4, withVersion := false, raw := none, ty := S_LeaderAndISRResponseTopicPartition },
  { name := "LeaderAndISRRequest", kind := "req", key := 4, maxVersion := 7, withVersion := false, raw := none, ty := S_LeaderAndISRRequest },
  { name := "LeaderAndISRResponse", kind := "resp", key := 4, maxVersion := 7, withVersion := false, raw := none, ty := S_LeaderAndISRResponse },
  { name := "StopReplicaRequest", kind := "req", key := 5, maxVersion := 4, withVersion := false, raw := none, ty := S_StopReplicaRequest },
  { name := "StopReplicaResponse", kind := "resp", key := 5, maxVersion := 4, withVersion := false, raw := none, ty := S_StopReplicaResponse },
  { name := "UpdateMetadataRequestTopicPartition", kind := "noenc", key := (-1), maxVersion := 6, withVersion := false, raw := none, ty := S_UpdateMetadataRequestTopicPartition },
  { name := "UpdateMetadataRequest", kind := "req", key := 6, maxVersion := 8, withVersion := false, raw := none, ty := S_UpdateMetadataRequest },
  { name := "UpdateMetadataResponse", kind := "resp", key := 6, maxVersion := 8, withVersion := false, raw := none, ty := S_UpdateMetadataResponse },
  { name := "ControlledShutdownRequest", kind := "req", key := 7, maxVersion := 3, withVersion := false, raw := none, ty := S_ControlledShutdownRequest },
  { name := "ControlledShutdownResponse", kind := "resp", key := 7, maxVersion := 3, withVersion := false, raw := none, ty := S_ControlledShutdownResponse },
  { name := "OffsetCommitRequest", kind := "req", key := 8, maxVersion := 10, withVersion := false, raw := none, ty := S_OffsetCommitRequest },
  { name := "OffsetCommitResponse", kind := "resp", key := 8, maxVersion := 10, withVersion := false, raw := none, ty := S_OffsetCommitResponse },
  { name := "OffsetFetchRequest", kind := "req", key := 9, maxVersion := 10, withVersion := false, raw := none, ty := S_OffsetFetchRequest },
  { name := "OffsetFetchResponse", kind := "resp", key := 9, maxVersion := 10, withVersion := false, raw := none, ty := S_OffsetFetchResponse },
  { name := "FindCoordinatorRequest", kind := "req", key := 10, maxVersion := 6, withVersion := false, raw := none, ty := S_FindCoordinatorRequest },
  { name := "FindCoordinatorResponse", kind := "resp", key := 10, maxVersion := 6, withVersion := false, raw := none, ty := S_FindCoordinatorResponse },
  { name := "JoinGroupRequest", kind := "req", key := 11, maxVersion := 9, withVersion := false, raw := none, ty := S_JoinGroupRequest },
  { name := "JoinGroupResponse", kind := "resp", key := 11, maxVersion := 9, withVersion := false, raw := none, ty := S_JoinGroupResponse },
  { name := "HeartbeatRequest", kind := "req", key := 12, maxVersion := 4, withVersion := false, raw := none, ty := S_HeartbeatRequest },
  { name := "HeartbeatResponse", kind := "resp", key := 12, maxVersion := 4, withVersion := false, raw := none, ty := S_HeartbeatResponse },
  { name := "LeaveGroupRequest", kind := "req", key := 13, maxVersion := 5, withVersion := false, raw := none, ty := S_LeaveGroupRequest },
  { name := "LeaveGroupResponse", kind := "resp", key := 13, maxVersion := 5, withVersion := false, raw := none, ty := S_LeaveGroupResponse },
  { name := "SyncGroupRequest", kind := "req", key := 14, maxVersion := 5, withVersion := false, raw := none, ty := S_SyncGroupRequest },
  { name := "SyncGroupResponse", kind := "resp", key := 14, maxVersion := 5, withVersion := false, raw := none, ty := S_SyncGroupResponse },
  { name := "DescribeGroupsRequest", kind := "req", key := 15, maxVersion := 6, withVersion := false, raw := none, ty := S_DescribeGroupsRequest },
  { name := "DescribeGroupsResponse", kind := "resp", key := 15, maxVersion := 6, withVersion := false, raw := none, ty := S_DescribeGroupsResponse },
  { name := "ListGroupsRequest", kind := "req", key := 16, maxVersion := 5, withVersion := false, raw := none, ty := S_ListGroupsRequest },
  { name := "ListGroupsResponse", kind := "resp", key := 16, maxVersion := 5, withVersion := false, raw := none, ty := S_ListGroupsResponse },
  { name := "SASLHandshakeRequest", kind := "req", key := 17, maxVersion := 1, withVersion := false, raw := none, ty := S_SASLHandshakeRequest },
  { name := "SASLHandshakeResponse", kind := "resp", key := 17, maxVersion := 1, withVersion := false, raw := none, ty := S_SASLHandshakeResponse },
  { name := "ApiVersionsRequest", kind := "req", key := 18, maxVersion := 4, withVersion := false, raw := none, ty := S_ApiVersionsRequest },
  { name := "ApiVersionsResponse", kind := "resp", key := 18, maxVersion := 4, withVersion := false, raw := none, ty := S_ApiVersionsResponse },
  { name := "CreateTopicsRequest", kind := "req", key := 19, maxVersion := 7, withVersion := false, raw := none, ty := S_CreateTopicsRequest },
  { name := "CreateTopicsResponse", kind := "resp", key := 19, maxVersion := 7, withVersion := false, raw := none, ty := S_CreateTopicsResponse },
  { name := "DeleteTopicsRequest", kind := "req", key := 20, maxVersion := 6, withVersion := false, raw := none, ty := S_DeleteTopicsRequest },
  { name := "DeleteTopicsResponse", kind := "resp", key := 20, maxVersion := 6, withVersion := false, raw := none, ty := S_DeleteTopicsResponse },
  { name := "DeleteRecordsRequest", kind := "req", key := 21, maxVersion := 2, withVersion := false, raw := none, ty := S_DeleteRecordsRequest },
  { name := "DeleteRecordsResponse", kind := "resp", key := 21, maxVersion := 2, withVersion := false, raw := none, ty := S_DeleteRecordsResponse },
  { name := "InitProducerIDRequest", kind := "req", key := 22, maxVersion := 5, withVersion := false, raw := none, ty := S_InitProducerIDRequest },
  { name := "InitProducerIDResponse", kind := "resp", key := 22, maxVersion := 5, withVersion := false, raw := none, ty := S_InitProducerIDResponse },
  { name := "OffsetForLeaderEpochRequest", kind := "req", key := 23, maxVersion := 4, withVersion := false, raw := none, ty := S_OffsetForLeaderEpochRequest },
  { name := "OffsetForLeaderEpochResponse", kind := "resp", key := 23, maxVersion := 4, withVersion := false, raw := none, ty := S_OffsetForLeaderEpochResponse },
  { name := "AddPartitionsToTxnRequest", kind := "req", key := 24, maxVersion := 5, withVersion := false, raw := none, ty := S_AddPartitionsToTxnRequest },
  { name := "AddPartitionsToTxnResponse", kind := "resp", key := 24, maxVersion := 5, withVersion := false, raw := none, ty := S_AddPartitionsToTxnResponse },
  { name := "AddOffsetsToTxnRequest", kind := "req", key := 25, maxVersion := 4, withVersion := false, raw := none, ty := S_AddOffsetsToTxnRequest },
  { name := "AddOffsetsToTxnResponse", kind := "resp", key := 25, maxVersion := 4, withVersion := false, raw := none, ty := S_AddOffsetsToTxnResponse },
  { name := "EndTxnRequest", kind := "req", key := 26, maxVersion := 5, withVersion := false, raw := none, ty := S_EndTxnRequest },
  { name := "EndTxnResponse", kind := "resp", key := 26, maxVersion := 5, withVersion := false, raw := none, ty := S_EndTxnResponse },
  { name := "WriteTxnMarkersRequest", kind := "req", key := 27, maxVersion := 2, withVersion := false, raw := none, ty := S_WriteTxnMarkersRequest },
  { name := "WriteTxnMarkersResponse", kind := "resp", key := 27, maxVersion := 2, withVersion := false, raw := none, ty := S_WriteTxnMarkersResponse },
  { name := "TxnOffsetCommitRequest", kind := "req", key := 28, maxVersion := 5, withVersion := false, raw := none, ty := S_TxnOffsetCommitRequest },
  { name := "TxnOffsetCommitResponse", kind := "resp", key := 28, maxVersion := 5, withVersion := false, raw := none, ty := S_TxnOffsetCommitResponse },
  { name := "DescribeACLsRequest", kind := "req", key := 29, maxVersion := 3, withVersion := false, raw := none, ty := S_DescribeACLsRequest },
  { name := "DescribeACLsResponse", kind := "resp", key := 29, maxVersion := 3, withVersion := false, raw := none, ty := S_DescribeACLsResponse },
  { name := "CreateACLsRequest", kind := "req", key := 30, maxVersion := 3, withVersion := false, raw := none, ty := S_CreateACLsRequest },
  { name := "CreateACLsResponse", kind := "resp", key := 30, maxVersion := 3, withVersion := false, raw := none, ty := S_CreateACLsResponse },
  { name := "DeleteACLsRequest", kind := "req", key := 31, maxVersion := 3, withVersion := false, raw := none, ty := S_DeleteACLsRequest },
  { name := "DeleteACLsResponse", kind := "resp", key := 31, maxVersion := 3, withVersion := false, raw := none, ty := S_DeleteACLsResponse },
  { name := "DescribeConfigsRequest", kind := "req", key := 32, maxVersion := 4, withVersion := false, raw := none, ty := S_DescribeConfigsRequest },
  { name := "DescribeConfigsResponse", kind := "resp", key := 32, maxVersion := 4, withVersion := false, raw := none, ty := S_DescribeConfigsResponse },
  { name := "AlterConfigsRequest", kind := "req", key := 33, maxVersion := 2, withVersion := false, raw := none, ty := S_AlterConfigsRequest },
  { name := "AlterConfigsResponse", kind := "resp", key := 33, maxVersion := 2, withVersion := false, raw := none, ty := S_AlterConfigsResponse },
  { name := "AlterReplicaLogDirsRequest", kind := "req", key := 34, maxVersion := 2, withVersion := false, raw := none, ty := S_AlterReplicaLogDirsRequest },
  { name := "AlterReplicaLogDirsResponse", kind := "resp", key := 34, maxVersion := 2, withVersion := false, raw := none, ty := S_AlterReplicaLogDirsResponse },
  { name := "DescribeLogDirsRequest", kind := "req", key := 35, maxVersion := 4, withVersion := false, raw := none, ty := S_DescribeLogDirsRequest },
  { name := "DescribeLogDirsResponse", kind := "resp", key := 35, maxVersion := 4, withVersion := false, raw := none, ty := S_DescribeLogDirsResponse },
  { name := "SASLAuthenticateRequest", kind := "req", key := 36, maxVersion := 2, withVersion := false, raw := none, ty := S_SASLAuthenticateRequest },
  { name := "SASLAuthenticateResponse", kind := "resp", key := 36, maxVersion := 2, withVersion := false, raw := none, ty := S_SASLAuthenticateResponse },
  { name := "CreatePartitionsRequest", kind := "req", key := 37, maxVersion := 3, withVersion := false, raw := none, ty := S_CreatePartitionsRequest },
  { name := "CreatePartitionsResponse", kind := "resp", key := 37, maxVersion := 3, withVersion := false, raw := none, ty := S_CreatePartitionsResponse },
  { name := "CreateDelegationTokenRequest", kind := "req", key := 38, maxVersion := 3, withVersion := false, raw := none, ty := S_CreateDelegationTokenRequest },
  { name := "CreateDelegationTokenResponse", kind := "resp", key := 38, maxVersion := 3, withVersion := false, raw := none, ty := S_CreateDelegationTokenResponse },
  { name := "RenewDelegationTokenRequest", kind := "req", key := 39, maxVersion := 2, withVersion := false, raw := none, ty := S_RenewDelegationTokenRequest },
  { name := "RenewDelegationTokenResponse", kind := "resp", key := 39, maxVersion := 2, withVersion := false, raw := none, ty := S_RenewDelegationTokenResponse },
  { name := "ExpireDelegationTokenRequest", kind := "req", key := 40, maxVersion := 2, withVersion := false, raw := none, ty := S_ExpireDelegationTokenRequest },
  { name := "ExpireDelegationTokenResponse", kind := "resp", key := 40, maxVersion := 2, withVersion := false, raw := none, ty := S_ExpireDelegationTokenResponse },
  { name := "DescribeDelegationTokenRequest", kind := "req", key := 41, maxVersion := 3, withVersion := false, raw := none, ty := S_DescribeDelegationTokenRequest },
  { name := "DescribeDelegationTokenResponse", kind := "resp", key := 41, maxVersion := 3, withVersion := false, raw := none, ty := S_DescribeDelegationTokenResponse },
  { name := "DeleteGroupsRequest", kind := "req", key := 42, maxVersion := 2, withVersion := false, raw := none, ty := S_DeleteGroupsRequest },
  { name := "DeleteGroupsResponse", kind := "resp", key := 42, maxVersion := 2, withVersion := false, raw := none, ty := S_DeleteGroupsResponse },
  { name := "ElectLeadersRequest", kind := "req", key := 43, maxVersion := 2, withVersion := false, raw := none, ty := S_ElectLeadersRequest },
  { name := "ElectLeadersResponse", kind := "resp", key := 43, maxVersion := 2, withVersion := false, raw := none, ty := S_ElectLeadersResponse },
  { name := "IncrementalAlterConfigsRequest", kind := "req", key := 44, maxVersion := 1, withVersion := false, raw := none, ty := S_IncrementalAlterConfigsRequest },
  { name := "IncrementalAlterConfigsResponse", kind := "resp", key := 44, maxVersion := 1, withVersion := false, raw := none, ty := S_IncrementalAlterConfigsResponse },
  { name := "AlterPartitionAssignmentsRequest", kind := "req", key := 45, maxVersion := 1, withVersion := false, raw := none, ty := S_AlterPartitionAssignmentsRequest },
  { name := "AlterPartitionAssignmentsResponse", kind := "resp", key := 45, maxVersion := 1, withVersion := false, raw := none, ty := S_AlterPartitionAssignmentsResponse },
  { name := "ListPartitionReassignmentsRequest", kind := "req", key := 46, maxVersion := 0, withVersion := false, raw := none, ty := S_ListPartitionReassignmentsRequest },
  { name := "ListPartitionReassignmentsResponse", kind := "resp", key := 46, maxVersion := 0, withVersion := false, raw := none, ty := S_ListPartitionReassignmentsResponse },
  { name := "OffsetDeleteRequest", kind := "req", key := 47, maxVersion := 0, withVersion := false, raw := none, ty := S_OffsetDeleteRequest },
  { name := "OffsetDeleteResponse", kind := "resp", key := 47, maxVersion := 0, withVersion := false, raw := none, ty := S_OffsetDeleteResponse },
  { name := "DescribeClientQuotasRequest", kind := "req", key := 48, maxVersion := 1, withVersion := false, raw := none, ty := S_DescribeClientQuotasRequest },
  { name := "DescribeClientQuotasResponse", kind := "resp", key := 48, maxVersion := 1, withVersion := false, raw := none, ty := S_DescribeClientQuotasResponse },
  { name := "AlterClientQuotasRequest", kind := "req", key := 49, maxVersion := 1, withVersion := false, raw := none, ty := S_AlterClientQuotasRequest },
  { name := "AlterClientQuotasResponse", kind := "resp", key := 49, maxVersion := 1, withVersion := false, raw := none, ty := S_AlterClientQuotasResponse },
  { name := "DescribeUserSCRAMCredentialsRequest", kind := "req", key := 50, maxVersion := 0, withVersion := false, raw := none, ty := S_DescribeUserSCRAMCredentialsRequest },
  { name := "DescribeUserSCRAMCredentialsResponse", kind := "resp", key := 50, maxVersion := 0, withVersion := false, raw := none, ty := S_DescribeUserSCRAMCredentialsResponse },
  { name := "AlterUserSCRAMCredentialsRequest", kind := "req", key := 51, maxVersion := 0, withVersion := false, raw := none, ty := S_AlterUserSCRAMCredentialsRequest },
  { name := "AlterUserSCRAMCredentialsResponse", kind := "resp", key := 51, maxVersion := 0, withVersion := false, raw := none, ty := S_AlterUserSCRAMCredentialsResponse },
  { name := "VoteRequest", kind := "req", key := 52, maxVersion := 2, withVersion := false, raw := none, ty := S_VoteRequest },
  { name := "VoteResponse", kind := "resp", key := 52, maxVersion := 2, withVersion := false, raw := none, ty := S_VoteResponse },
  { name := "BeginQuorumEpochRequest", kind := "req", key := 53, maxVersion := 1, withVersion := false, raw := none, ty := S_BeginQuorumEpochRequest },
  { name := "BeginQuorumEpochResponse", kind := "resp", key := 53, maxVersion := 1, withVersion := false, raw := none, ty := S_BeginQuorumEpochResponse },
  { name := "EndQuorumEpochRequest", kind := "req", key := 54, maxVersion := 1, withVersion := false, raw := none, ty := S_EndQuorumEpochRequest },
  { name := "EndQuorumEpochResponse", kind := "resp", key := 54, maxVersion := 1, withVersion := false, raw := none, ty := S_EndQuorumEpochResponse },
  { name := "DescribeQuorumResponseTopicPartitionReplicaState", kind := "noenc", key := (-1), maxVersion := 2, withVersion := false, raw := none, ty := S_DescribeQuorumResponseTopicPartitionReplicaState },
  { name := "DescribeQuorumRequest", kind := "req", key := 55, maxVersion := 2, withVersion := false, raw := none, ty := S_DescribeQuorumRequest },
  { name := "DescribeQuorumResponse", kind := "resp", key := 55, maxVersion := 2, withVersion := false, raw := none, ty := S_DescribeQuorumResponse },
  { name := "AlterPartitionRequest", kind := "req", key := 56, maxVersion := 3, withVersion := false, raw := none, ty := S_AlterPartitionRequest },
  { name := "AlterPartitionResponse", kind := "resp", key := 56, maxVersion := 3, withVersion := false, raw := none, ty := S_AlterPartitionResponse },
  { name := "UpdateFeaturesRequest", kind := "req", key := 57, maxVersion := 2, withVersion := false, raw := none, ty := S_UpdateFeaturesRequest },
  { name := "UpdateFeaturesResponse", kind := "resp", key := 57, maxVersion := 2, withVersion := false, raw := none, ty := S_UpdateFeaturesResponse },
  { name := "EnvelopeRequest", kind := "req", key := 58, maxVersion := 0, withVersion := false, raw := none, ty := S_EnvelopeRequest },
  { name := "EnvelopeResponse", kind := "resp", key := 58, maxVersion := 0, withVersion := false, raw := none, ty := S_EnvelopeResponse },
  { name := "FetchSnapshotRequest", kind := "req", key := 59, maxVersion := 1, withVersion := false, raw := none, ty := S_FetchSnapshotRequest },
  { name := "FetchSnapshotResponse", kind := "resp", key := 59, maxVersion := 1, withVersion := false, raw := none, ty := S_FetchSnapshotResponse },
  { name := "DescribeClusterRequest", kind := "req", key := 60, maxVersion := 2, withVersion := false, raw := none, ty := S_DescribeClusterRequest },
  { name := "DescribeClusterResponse", kind := "resp", key := 60, maxVersion := 2, withVersion := false, raw := none, ty := S_DescribeClusterResponse },
  { name := "DescribeProducersRequest", kind := "req", key := 61, maxVersion := 0, withVersion := false, raw := none, ty := S_DescribeProducersRequest },
  { name := "DescribeProducersResponse", kind := "resp", key := 61, maxVersion := 0, withVersion := false, raw := none, ty := S_DescribeProducersResponse },
  { name := "BrokerRegistrationRequest", kind := "req", key := 62, maxVersion := 4, withVersion := false, raw := none, ty := S_BrokerRegistrationRequest },
  { name := "BrokerRegistrationResponse", kind := "resp", key := 62, maxVersion := 4, withVersion := false, raw := none, ty := S_BrokerRegistrationResponse },
  { name := "BrokerHeartbeatRequest", kind := "req", key := 63, maxVersion := 1, withVersion := false, raw := none, ty := S_BrokerHeartbeatRequest },
  { name := "BrokerHeartbeatResponse", kind := "resp", key := 63, maxVersion := 1, withVersion := false, raw := none, ty := S_BrokerHeartbeatResponse },
  { name := "UnregisterBrokerRequest", kind := "req", key := 64, maxVersion := 0, withVersion := false, raw := none, ty := S_UnregisterBrokerRequest },
  { name := "UnregisterBrokerResponse", kind := "resp", key := 64, maxVersion := 0, withVersion := false, raw := none, ty := S_UnregisterBrokerResponse },
  { name := "DescribeTransactionsRequest", kind := "req", key := 65, maxVersion := 0, withVersion := false, raw := none, ty := S_DescribeTransactionsRequest },
  { name := "DescribeTransactionsResponse", kind := "resp", key := 65, maxVersion := 0, withVersion := false, raw := none, ty := S_DescribeTransactionsResponse },
  { name := "ListTransactionsRequest", kind := "req", key := 66, maxVersion := 2, withVersion := false, raw := none, ty := S_ListTransactionsRequest },
  { name := "ListTransactionsResponse", kind := "resp", key := 66, maxVersion := 2, withVersion := false, raw := none, ty := S_ListTransactionsResponse },
  { name := "AllocateProducerIDsRequest", kind := "req", key := 67, maxVersion := 0, withVersion := false, raw := none, ty := S_AllocateProducerIDsRequest },
  { name := "AllocateProducerIDsResponse", kind := "resp", key := 67, maxVersion := 0, withVersion := false, raw := none, ty := S_AllocateProducerIDsResponse },
  { name := "ConsumerGroupHeartbeatRequest", kind := "req", key := 68, maxVersion := 1, withVersion := false, raw := none, ty := S_ConsumerGroupHeartbeatRequest },
  { name := "ConsumerGroupHeartbeatResponse", kind := "resp", key := 68, maxVersion := 1, withVersion := false, raw := none, ty := S_ConsumerGroupHeartbeatResponse },
  { name := "Assignment", kind := "noenc", key := (-1), maxVersion := 0, withVersion := false, raw := none, ty := S_Assignment },
  { name := "ConsumerGroupDescribeRequest", kind := "req", key := 69, maxVersion := 1, withVersion := false, raw := none, ty := S_ConsumerGroupDescribeRequest },
  { name := "ConsumerGroupDescribeResponse", kind := "resp", key := 69, maxVersion := 1, withVersion := false, raw := none, ty := S_ConsumerGroupDescribeResponse },
  { name := "ControllerRegistrationRequest", kind := "req", key := 70, maxVersion := 0, withVersion := false, raw := none, ty := S_ControllerRegistrationRequest },
  { name := "ControllerRegistrationResponse", kind := "resp", key := 70, maxVersion := 0, withVersion := false, raw := none, ty := S_ControllerRegistrationResponse },
  { name := "GetTelemetrySubscriptionsRequest", kind := "req", key := 71, maxVersion := 0, withVersion := false, raw := none, ty := S_GetTelemetrySubscriptionsRequest },
  { name := "GetTelemetrySubscriptionsResponse", kind := "resp", key := 71, maxVersion := 0, withVersion := false, raw := none, ty := S_GetTelemetrySubscriptionsResponse },
  { name := "PushTelemetryRequest", kind := "req", key := 72, maxVersion := 0, withVersion := false, raw := none, ty := S_PushTelemetryRequest },
  { name := "PushTelemetryResponse", kind := "resp", key := 72, maxVersion := 0, withVersion := false, raw := none, ty := S_PushTelemetryResponse },
  { name := "AssignReplicasToDirsRequest", kind := "req", key := 73, maxVersion := 0, withVersion := false, raw := none, ty := S_AssignReplicasToDirsRequest },
  { name := "AssignReplicasToDirsResponse", kind := "resp", key := 73, maxVersion := 0, withVersion := false, raw := none, ty := S_AssignReplicasToDirsResponse },
  { name := "ListConfigResourcesRequest", kind := "req", key := 74, maxVersion := 1, withVersion := false, raw := none, ty := S_ListConfigResourcesRequest },
  { name := "ListConfigResourcesResponse", kind := "resp", key := 74, maxVersion := 1, withVersion := false, raw := none, ty := S_ListConfigResourcesResponse },
  { name := "DescribeTopicPartitionsRequest", kind := "req", key := 75, maxVersion := 0, withVersion := false, raw := none, ty := S_DescribeTopicPartitionsRequest },
  { name := "DescribeTopicPartitionsResponse", kind := "resp", key := 75, maxVersion := 0, withVersion := false, raw := none, ty := S_DescribeTopicPartitionsResponse },
  { name := "ShareGroupHeartbeatRequest", kind := "req", key := 76, maxVersion := 1, withVersion := false, raw := none, ty := S_ShareGroupHeartbeatRequest },
  { name := "ShareGroupHeartbeatResponse", kind := "resp", key := 76, maxVersion := 1, withVersion := false, raw := none, ty := S_ShareGroupHeartbeatResponse },
  { name := "ShareGroupDescribeRequest", kind := "req", key := 77, maxVersion := 1, withVersion := false, raw := none, ty := S_ShareGroupDescribeRequest },
  { name := "ShareGroupDescribeResponse", kind := "resp", key := 77, maxVersion := 1, withVersion := false, raw := none, ty := S_ShareGroupDescribeResponse },
  { name := "ShareFetchRequest", kind := "req", key := 78, maxVersion := 2, withVersion := false, raw := none, ty := S_ShareFetchRequest },
  { name := "ShareFetchResponse", kind := "resp", key := 78, maxVersion := 2, withVersion := false, raw := none, ty := S_ShareFetchResponse },
  { name := "ShareAcknowledgeRequest", kind := "req", key := 79, maxVersion := 2, withVersion := false, raw := none, ty := S_ShareAcknowledgeRequest },
  { name := "ShareAcknowledgeResponse", kind := "resp", key := 79, maxVersion := 2, withVersion := false, raw := none, ty := S_ShareAcknowledgeResponse },
  { name := "AddRaftVoterRequest", kind := "req", key := 80, maxVersion := 1, withVersion := false, raw := none, ty := S_AddRaftVoterRequest },
  { name := "AddRaftVoterResponse", kind := "resp", key := 80, maxVersion := 1, withVersion := false, raw := none, ty := S_AddRaftVoterResponse },
  { name := "RemoveRaftVoterRequest", kind := "req", key := 81, maxVersion := 0, withVersion := false, raw := none, ty := S_RemoveRaftVoterRequest },
  { name := "RemoveRaftVoterResponse", kind := "resp", key := 81, maxVersion := 0, withVersion := false, raw := none, ty := S_RemoveRaftVoterResponse },
  { name := "UpdateRaftVoterRequest", kind := "req", key := 82, maxVersion := 0, withVersion := false, raw := none, ty := S_UpdateRaftVoterRequest },
  { name := "UpdateRaftVoterResponse", kind := "resp", key := 82, maxVersion := 0, withVersion := false, raw := none, ty := S_UpdateRaftVoterResponse },
  { name := "InitializeShareGroupStateRequest", kind := "req", key := 83, maxVersion := 0, withVersion := false, raw := none, ty := S_InitializeShareGroupStateRequest },
  { name := "InitializeShareGroupStateResponse", kind := "resp", key := 83, maxVersion := 0, withVersion := false, raw := none, ty := S_InitializeShareGroupStateResponse },
  { name := "ReadShareGroupStateRequest", kind := "req", key := 84, maxVersion := 0, withVersion := false, raw := none, ty := S_ReadShareGroupStateRequest },
  { name := "ReadShareGroupStateResponse", kind := "resp", key := 84, maxVersion := 0, withVersion := false, raw := none, ty := S_ReadShareGroupStateResponse },
  { name := "WriteShareGroupStateRequest", kind := "req", key := 85, maxVersion := 1, withVersion := false, raw := none, ty := S_WriteShareGroupStateRequest },
  { name := "WriteShareGroupStateResponse", kind := "resp", key := 85, maxVersion := 1, withVersion := false, raw := none, ty := S_WriteShareGroupStateResponse },
  { name := "DeleteShareGroupStateRequest", kind := "req", key := 86, maxVersion := 0, withVersion := false, raw := none, ty := S_DeleteShareGroupStateRequest },
  { name := "DeleteShareGroupStateResponse", kind := "resp", key := 86, maxVersion := 0, withVersion := false, raw := none, ty := S_DeleteShareGroupStateResponse },
  { name := "ReadShareGroupStateSummaryRequest", kind := "req", key := 87, maxVersion := 1, withVersion := false, raw := none, ty := S_ReadShareGroupStateSummaryRequest },
  { name := "ReadShareGroupStateSummaryResponse", kind := "resp", key := 87, maxVersion := 1, withVersion := false, raw := none, ty := S_ReadShareGroupStateSummaryResponse },
  { name := "TaskIDs", kind := "noenc", key := (-1), maxVersion := 0, withVersion := false, raw := none, ty := S_TaskIDs },
  { name := "TopicInfo", kind := "noenc", key := (-1), maxVersion := 0, withVersion := false, raw := none, ty := S_TopicInfo },
  { name := "Endpoint", kind := "noenc", key := (-1), maxVersion := 0, withVersion := false, raw := none, ty := S_Endpoint },
  { name := "TaskOffset", kind := "noenc", key := (-1), maxVersion := 0, withVersion := false, raw := none, ty := S_TaskOffset },
  { name := "StreamsGroupHeartbeatRequest", kind := "req", key := 88, maxVersion := 0, withVersion := false, raw := none, ty := S_StreamsGroupHeartbeatRequest },
  { name := "StreamsGroupHeartbeatResponse", kind := "resp", key := 88, maxVersion := 0, withVersion := false, raw := none, ty := S_StreamsGroupHeartbeatResponse },
  { name := "StreamsAssignment", kind := "noenc", key := (-1), maxVersion := 0, withVersion := false, raw := none, ty := S_StreamsAssignment },
  { name := "StreamsGroupDescribeRequest", kind := "req", key := 89, maxVersion := 0, withVersion := false, raw := none, ty := S_StreamsGroupDescribeRequest },
  { name := "StreamsGroupDescribeResponse", kind := "resp", key := 89, maxVersion := 0, withVersion := false, raw := none, ty := S_StreamsGroupDescribeResponse },
  { name := "DescribeShareGroupOffsetsRequest", kind := "req", key := 90, maxVersion := 1, withVersion := false, raw := none, ty := S_DescribeShareGroupOffsetsRequest },
  { name := "DescribeShareGroupOffsetsResponse", kind := "resp", key := 90, maxVersion := 1, withVersion := false, raw := none, ty := S_DescribeShareGroupOffsetsResponse },
  { name := "AlterShareGroupOffsetsRequest", kind := "req", key := 91, maxVersion := 0, withVersion := false, raw := none, ty := S_AlterShareGroupOffsetsRequest },
  { name := "AlterShareGroupOffsetsResponse", kind := "resp", key := 91, maxVersion := 0, withVersion := false, raw := none, ty := S_AlterShareGroupOffsetsResponse },
  { name := "DeleteShareGroupOffsetsRequest", kind := "req", key := 92, maxVersion := 0, withVersion := false, raw := none, ty := S_DeleteShareGroupOffsetsRequest },
  { name := "DeleteShareGroupOffsetsResponse", kind := "resp", key := 92, maxVersion := 0, withVersion := false, raw := none, ty := S_DeleteShareGroupOffsetsResponse },
  { name := "MessageV0", kind := "misc", key := (-1), maxVersion := 0, withVersion := false, raw := none, ty := S_MessageV0 },
  { name := "MessageV1", kind := "misc", key := (-1), maxVersion := 0, withVersion := false, raw := none, ty := S_MessageV1 },
  { name := "Header", kind := "misc", key := (-1), maxVersion := 0, withVersion := false, raw := none, ty := S_Header },
  { name := "Record", kind := "misc", key := (-1), maxVersion := 0, withVersion := false, raw := none, ty := S_Record },
  { name := "RecordBatch", kind := "misc", key := (-1), maxVersion := 0, withVersion := false, raw := (some (1, 49)), ty := S_RecordBatch },
  { name := "OffsetCommitKey", kind := "misc", key := (-1), maxVersion := 0, withVersion := true, raw := none, ty := S_OffsetCommitKey },
  { name := "OffsetCommitValue", kind := "misc", key := (-1), maxVersion := 4, withVersion := true, raw := none, ty := S_OffsetCommitValue },
  { name := "GroupMetadataKey", kind := "misc", key := (-1), maxVersion := 0, withVersion := true, raw := none, ty := S_GroupMetadataKey },
  { name := "GroupMetadataValue", kind := "misc", key := (-1), maxVersion := 4, withVersion := true, raw := none, ty := S_GroupMetadataValue },
  { name := "TxnMetadataKey", kind := "misc", key := (-1), maxVersion := 0, withVersion := true, raw := none, ty := S_TxnMetadataKey },
  { name := "TxnMetadataValue", kind := "misc", key := (-1), maxVersion := 1, withVersion := true, raw := none, ty := S_TxnMetadataValue },
  { name := "StickyMemberMetadata", kind := "noenc", key := (-1), maxVersion := 1, withVersion := false, raw := none, ty := S_StickyMemberMetadata },
  { name := "ConsumerMemberMetadata", kind := "misc", key := (-1), maxVersion := 3, withVersion := true, raw := none, ty := S_ConsumerMemberMetadata },
  { name := "ConsumerMemberAssignment", kind := "misc", key := (-1), maxVersion := 0, withVersion := true, raw := none, ty := S_ConsumerMemberAssignment },
  { name := "ConnectMemberMetadata", kind := "misc", key := (-1), maxVersion := 1, withVersion := true, raw := none, ty := S_ConnectMemberMetadata },
  { name := "ConnectMemberAssignment", kind := "misc", key := (-1), maxVersion := 1, withVersion := true, raw := none, ty := S_ConnectMemberAssignment },
  { name := "DefaultPrincipalData", kind := "misc", key := (-1), maxVersion := 0, withVersion := true, raw := none, ty := S_DefaultPrincipalData },
  { name := "ControlRecordKey", kind := "misc", key := (-1), maxVersion := 0, withVersion := true, raw := none, ty := S_ControlRecordKey },
  { name := "EndTxnMarker", kind := "misc", key := (-1), maxVersion := 0, withVersion := true, raw := none, ty := S_EndTxnMarker },
  { name := "LeaderChangeMessageVoter", kind := "noenc", key := (-1), maxVersion := 1, withVersion := false, raw := none, ty := S_LeaderChangeMessageVoter },
  { name := "LeaderChangeMessage", kind := "misc", key := (-1), maxVersion := 1, withVersion := true, raw := none, ty := S_LeaderChangeMessage }
]

end Gen.Schema
