import Driver.Common
import FranzVerif.Model.Group
/-! Shared sub-driver for the `grp` scenarios (C07, C08). -/
namespace Driver.GroupHist
open Driver Model.Group

def parseParts (s : String) : Option (List Nat) :=
  if s == "-" || s == "" then some [] else (s.splitOn ",").mapM (·.toNat?)

def parseEv (t : String) : Option (Option Ev) :=
  match t.splitOn ":" with
  | ["D", id, p, o] => do some (some (.produced (← id.toNat?) (← p.toNat?) (← o.toNat?)))
  | ["Dx", _] => some (some .incomplete)
  | ["J", m] => do some (some (.join (← m.toNat?)))
  | ["Lv", m] => do some (some (.leaveStart (← m.toNat?)))
  | ["Lx", m] => do some (some (.leaveDone (← m.toNat?)))
  | ["As", m, ps] => do some (some (.assignStart (← m.toNat?) (← parseParts ps)))
  | ["Ae", m] => do some (some (.assignEnd (← m.toNat?)))
  | ["Rs", m, ps] => do some (some (.revokeStart (← m.toNat?) (← parseParts ps)))
  | ["Re", m] => do some (some (.revokeEnd (← m.toNat?)))
  | ["Ls", m, ps] => do some (some (.lostStart (← m.toNat?) (← parseParts ps)))
  | ["Le", m] => do some (some (.lostEnd (← m.toNat?)))
  | ["Ps", m] => do some (some (.pollStart (← m.toNat?)))
  | ["Pe", m] => do some (some (.pollEnd (← m.toNat?)))
  | ["V", m, p, o, id] => do some (some (.returned (← m.toNat?) (← p.toNat?) (← o.toNat?) (← id.toNat?)))
  | ["Ac", m, p, o, r] => do some (some (.commit (← m.toNat?) (← p.toNat?) (← o.toNat?) (r == "ok")))
  | ["S", ms] => do some (some (.stable (← parseParts ms)))
  | ["GC", p, o] => do some (some (.finalCommitted (← p.toNat?) (← o.toInt?)))
  | ["Q"] => some (some .quiesce)
  | ["ERRclient"] => some (some .incomplete)
  | ["ERRoffsetfetch"] => some (some .incomplete)
  | ["End", _, _] => some none
  | _ => none

def parseCfg (t : String) : Option Cfg :=
  match t.splitOn ":" with
  | ["cfg", p, _b] => do some { parts := (← p.toNat?) }
  | _ => none

/-- `OnPartitionsRevoked` / `OnPartitionsLost` can name a partition the member was never handed through
`OnPartitionsAssigned` (an assignment that arrived while the member was already closing): in C07's sense the
member never owned it, so the monitor is shown the callback restricted to the partitions the member owns. -/
def normalize (c : Cfg) : St → List Ev → List Ev → List Ev
  | _, [], acc => acc.reverse
  | s, e :: es, acc =>
    let e' := match e with
      | .revokeStart m parts => .revokeStart m (parts.filter (fun p => ownerOf s p == some m))
      | .lostStart m parts => .lostStart m (parts.filter (fun p => ownerOf s p == some m))
      | e => e
    normalize c (apply c s e') es (e' :: acc)

def refusals (c : Cfg) : St → List Ev → List String → List String
  | _, [], acc => acc.reverse
  | s, e :: es, acc =>
    match check c s e with
    | none => refusals c (apply c s e) es acc
    | some r => refusals c (apply c s e) es (r :: acc)

def handle (prop : String) (impl : String) : String :=
  if impl.startsWith "PANIC" || impl.startsWith "HANG" || impl.startsWith "ERR" then
    s!"* | 0:{prop}.scenario-{((impl.splitOn ":").head!.splitOn " ").head!.toLower} | 1"
  else
  match toks impl with
  | [] => "!empty | - | 0"
  | ct :: ets =>
    match parseCfg ct with
    | none => "!bad-cfg | - | 0"
    | some c =>
      let evs := ets.map parseEv
      if evs.any (·.isNone) then "!bad-event | - | 0" else
      let es := normalize c {} ((evs.filterMap id).filterMap id) []
      let rs := (refusals c {} es []).filter (·.startsWith prop)
      let nJoin := (es.filter (fun e => match e with | .join _ => true | _ => false)).length
      let nRev := (es.filter (fun e => match e with | .revokeStart _ ps => !ps.isEmpty | _ => false)).length
      let nCommit := (es.filter (fun e => match e with | .commit _ _ _ true => true | _ => false)).length
      let nt := boolStr (decide (nJoin ≥ 2) && decide (nRev ≥ 1) && decide (nCommit ≥ 1))
      -- the class "a KIP-848 member closed while a reconciliation was taking partitions away from it" has its own key
      let is848 := match ct.splitOn ":" with | [_, _, b] => b == "4" | _ => false
      let keyOf (r : String) : String := if is848 && r == "C07.left-still-owning-partitions" then r ++ ".kip848" else r
      match rs with
      | [] => s!"* | 1 | {nt}"
      | r :: _ => s!"* | 0:{keyOf r} | {nt}"

end Driver.GroupHist
