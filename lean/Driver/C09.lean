import Driver.Common
import FranzVerif.Model.Commit
import FranzVerif.Model.CommitReport
/-! Sub-driver C09 (`cmt` scenarios). -/
open Driver Model.Commit

def parseOffs (s : String) : Option (List (Nat × Nat)) :=
  (s.splitOn ",").mapM (fun kv => match kv.splitOn "=" with
    | [p, o] => do some ((← p.toNat?), (← o.toNat?))
    | _ => none)

def parseEv (t : String) : Option (Option Ev) :=
  match t.splitOn ":" with
  | ["Cs", k, _api, offs] => do some (some (.issue (← k.toNat?) (← parseOffs offs)))
  | ["Ce", k, r] => do some (some (.finish (← k.toNat?) (r == "ok")))
  | ["Wc", n, p, o] => do some (some (.wireReq (← n.toNat?) (← p.toNat?) (← o.toNat?)))
  | ["Wr", n, p, e] => do some (some (.wireResp (← n.toNat?) (← p.toNat?) (← e.toInt?)))
  | ["Wt", p] => do some (some (.taint (← p.toNat?)))
  | ["Td", t] => do some (some (.topicDeleted (← t.toNat?)))
  | ["ERRdelete"] => some none   -- the delete request failed: the topic's partitions stay unjudged (Td was logged), nothing else changes
  | ["CO", p, o] => do some (some (.clientCommitted (← p.toNat?) (← o.toInt?)))
  | ["GC", p, o] => do some (some (.groupCommitted (← p.toNat?) (← o.toInt?)))
  | ["Q"] => some (some .quiesce)
  | ["ERRoffsetfetch"] => some (some .incomplete)
  | ["ERRwarmup"] => some (some .incomplete)
  | ["Wbad"] => some (some .incomplete)
  | ["Cunknown"] => some (some .incomplete)   -- a commit whose own context ended early finished with an error: the client cannot know whether it took effect, so "the last successful commit" is not defined and the final-value clauses are not judged (the ordering clauses are)
  | _ => none

/-- the success-report monitor's view of the history: Cs, Wc, Wr, Ce -/
def parseReportEv (t : String) : Option Model.CommitReport.Ev :=
  match t.splitOn ":" with
  | ["Cs", k, _api, offs] => do some (.issue (← k.toNat?) (← parseOffs offs))
  | ["Ce", k, r] => do some (.finish (← k.toNat?) (r == "ok"))
  | ["Wc", n, p, o] => do some (.wireReq (← n.toNat?) (← p.toNat?) (← o.toNat?))
  | ["Wr", n, p, e] => do some (.wireResp (← n.toNat?) (← p.toNat?) (← e.toInt?))
  | _ => none

def reportRefusals : Model.CommitReport.St → List Model.CommitReport.Ev → List String → List String
  | _, [], acc => acc.reverse
  | s, e :: es, acc =>
    match Model.CommitReport.check s e with
    | none => reportRefusals (Model.CommitReport.apply s e) es acc
    | some r => reportRefusals (Model.CommitReport.apply s e) es (r :: acc)

def refusals : St → List Ev → List String → List String
  | _, [], acc => acc.reverse
  | s, e :: es, acc =>
    match check s e with
    | none => refusals (apply s e) es acc
    | some r => refusals (apply s e) es (r :: acc)

def handle (line : String) : String :=
  let (_, impl) := splitBar line
  if impl.startsWith "PANIC" || impl.startsWith "HANG" || impl.startsWith "ERR" then
    s!"* | 0:C09.scenario-{((impl.splitOn ":").head!.splitOn " ").head!.toLower} | 1"
  else
  match toks impl with
  | [] => "!empty | - | 0"
  | _cfg :: ets =>
    let evs := ets.map parseEv
    if evs.any (·.isNone) then "!bad-event | - | 0" else
    let es := (evs.filterMap id).filterMap id
    let rs := refusals {} es [] ++ reportRefusals {} (ets.filterMap parseReportEv) []
    let nErr := (es.filter (fun e => match e with | .wireResp _ _ e => e != 0 | _ => false)).length
    let nIssue := (es.filter (fun e => match e with | .issue _ _ => true | _ => false)).length
    let nt := boolStr (decide (nIssue ≥ 4) && decide (nErr > 0 || nIssue ≥ 8))
    match rs with
    | [] => s!"* | 1 | {nt}"
    | r :: _ => s!"* | 0:{r} | {nt}"

def main : IO UInt32 := runLoop () (fun _ line => ((), handle line))
