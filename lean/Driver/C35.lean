import Driver.Common
import FranzVerif.Model.C35
import FranzVerif.Spec.C35
/-! Sub-driver C35. Input lines `op | impl`; output `model | verdict | nontrivial`.

Grammar of an op (space separated tokens, counts prefix every list; topics are numbers):

  lag M <nm> { <assignedConsumer 0|1> <joinConsumer 0|1> <nt> { <t> <np> <p>* }* <nj> <t>* }*
      C <nt> { <t> <np> { <p> <at> <leaderEpoch> <err> }* }*
      S ( - | <nt> { <t> <np> { <p> <offset> <err> }* }* )      `-`: CalculateGroupLag (no start offsets)
      E <nt> { <t> <np> { <p> <offset> <err> }* }*

`err` is 0 for nil, 1 for kadm's "missing from list offsets", k ≥ 2 for the k-th error value of the harness.
Output of both sides (rows sorted by topic, partition; totals sorted by topic):

  R <n> { <member index|-1> <t> <p> <commitAt> <commitLeaderEpoch> <startOff> <startErr> <endOff> <endErr> <lag> <err> }*
  T <n> { <t> <lag> }* <total>

Verdict: `Spec.C35.specScope` on the implementation's output. Keys: `coverage`, `duplicate`, `lag-in-scope`,
`totals`, `malformed-output`. Rows of partitions that are neither assigned nor committed are outside the
property as given (the code reports them with lag ≥ 0 and the error set when the end offset is errored but a
start offset is listed; see DESIGN.md) and are only compared with the model. -/
open Driver Model.C35 Spec.C35

abbrev P := StateT (List String) Option

def tok : P String := do
  match (← get) with
  | [] => failure
  | t :: ts => set ts; pure t

def pInt : P Int := do
  match (← tok).toInt? with
  | some v => pure v
  | none => failure

def pNat : P Nat := do
  match (← tok).toNat? with
  | some v => pure v
  | none => failure

def pBool : P Bool := do
  match (← tok) with
  | "0" => pure false
  | "1" => pure true
  | _ => failure

def lit (s : String) : P Unit := do
  if (← tok) == s then pure () else failure

def rep {α : Type} : Nat → P α → P (List α)
  | 0, _ => pure []
  | n + 1, p => do
    let x ← p
    let xs ← rep n p
    pure (x :: xs)

def many {α : Type} (p : P α) : P (List α) := do
  let n ← pNat
  rep n p

def pMember : P Member := do
  let ac ← pBool
  let jc ← pBool
  let asg ← many (do let t ← pNat; let ps ← many pInt; pure (t, ps))
  let j ← many pNat
  pure ⟨ac, asg, jc, j⟩

def pListedMap : P (List (Nat × List (Int × Listed))) :=
  many (do
    let t ← pNat
    let ps ← many (do let p ← pInt; let o ← pInt; let e ← pNat; pure (p, (⟨o, e⟩ : Listed)))
    pure (t, ps))

def pInput : P Input := do
  lit "lag"
  lit "M"
  let ms ← many pMember
  lit "C"
  let c ← many (do
    let t ← pNat
    let ps ← many (do let p ← pInt; let a ← pInt; let ep ← pInt; let e ← pNat; pure (p, (⟨a, ep, e⟩ : Commit)))
    pure (t, ps))
  lit "S"
  let s ← (do
    match (← get) with
    | "-" :: ts => set ts; pure []
    | _ => pListedMap)
  lit "E"
  let e ← pListedMap
  match (← get) with
  | [] => pure ⟨ms, c, s, e⟩
  | _ => failure

def pRow : P Row := do
  let m ← pInt; let t ← pNat; let p ← pInt; let ca ← pInt; let ce ← pInt
  let so ← pInt; let se ← pNat; let eo ← pInt; let ee ← pNat; let lag ← pInt; let err ← pNat
  pure ⟨m, t, p, ca, ce, ⟨so, se⟩, ⟨eo, ee⟩, lag, err⟩

def pOut : P Out := do
  lit "R"
  let rows ← many pRow
  lit "T"
  let bt ← many (do let t ← pNat; let v ← pInt; pure (t, v))
  let tot ← pInt
  match (← get) with
  | [] => pure ⟨rows, bt, tot⟩
  | _ => failure

def rowLe (a b : Row) : Bool := a.topic < b.topic || (a.topic == b.topic && a.part ≤ b.part)

def showRow (r : Row) : String :=
  s!"{r.member} {r.topic} {r.part} {r.commitAt} {r.commitEpoch} {r.start.off} {r.start.err} {r.end_.off} {r.end_.err} {r.lag} {r.err}"

def showOut (o : Out) : String :=
  let rows := o.rows.mergeSort rowLe
  let bt := o.byTopic.mergeSort (fun a b => a.1 ≤ b.1)
  let rs := rows.foldl (fun s r => s ++ " " ++ showRow r) ""
  let ts := bt.foldl (fun s tv => s ++ s!" {tv.1} {tv.2}") ""
  s!"R {rows.length}{rs} T {bt.length}{ts} {o.total}"

def knownClass (inp : Input) (r : Row) : Bool :=
  thirdPassErrStart inp r.topic r.part && decide (r.lag ≥ 0) && r.err != 0

def verdict (inp : Input) (out : Out) : String :=
  if !covers inp out then "0:coverage"
  else if !once out then "0:duplicate"
  else if !out.rows.all (fun r => !inScope inp r.topic r.part || rowLaw inp r) then "0:lag-in-scope"
  else if !totalsOK out then "0:totals"
  -- rows for partitions that are neither assigned nor committed (third pass: only listed) are outside the
  -- property as given; they are compared with the model but not judged by the Spec
  else "1"

def nontrivial (inp : Input) (out : Out) : Bool :=
  out.rows.any (fun r => inScope inp r.topic r.part)

def step (st : Unit) (line : String) : Unit × String :=
  let (op, impl) := splitBar line
  match (pInput.run (toks op)) with
  | some (inp, _) =>
    let m := runOut inp
    let mout := showOut m
    match pOut.run (toks impl) with
    | some (out, _) => (st, s!"{mout} | {verdict inp out} | {boolStr (nontrivial inp out)}")
    | none => (st, s!"{mout} | 0:malformed-output | 0")
  | none => (st, "bad-op | - | 0")

def main : IO UInt32 := runLoop () step
