import Driver.Common
import FranzVerif.Gen.C17
import FranzVerif.Model.C17
import FranzVerif.Spec.C17
/-! Sub-driver C17. Input lines `op | impl`; output `model | verdict | nontrivial`.
The harness runs every op on pkg/kbin and on the compiled private copy; when they differ the impl
field is `<public> ## <private>` and the verdict is `0:private-copy-differs`.

  e <name> <dst> <args…> | <hex> [<len>]   encoders; `dst` is the slice appended to (hex, `.` empty).
        uv u | v i | vl i                      -> bytes and UvarintLen/VarintLen/VarlongLen
        bool 0|1 | i8 i | i16 i | u16 u | i32 i | u32 u | i64 i | f64 <bits> | uuid <hex16>
        str s | cstr s | nstr s|- | cnstr s|- | bytes b | cbytes b | nbytes b|- | cnbytes b|- | vstr s | vbytes b|-
        alen l | calen l | nalen l nil | cnalen l nil
  d uv|v|vl <hex> | <value> <n>            Uvarint / Varint / Varlong
  r <src|-> <method>… | <res>… ok=<b> src=<hex|->   one Reader, methods in order; `span:<l>`; nil results `-`
  sw uv|v|vl <start> <step> <count> | <hash>   FNV fold over encode bytes, length fn, decode of the encoding
                                               for start + i*step (mod 2^32 / 2^64)
Spec verdict: the Spec functions of Spec/C17.lean evaluated on the implementation's output. -/
open Driver

namespace C17D
open Model.C17

def hexB (bs : Bytes) : String :=
  if bs.isEmpty then "." else
  String.ofList (bs.flatMap fun b => [hexDigit (b.toNat / 16), hexDigit (b.toNat % 16)])
def hexO : Option Bytes → String
  | none => "-"
  | some b => hexB b
def parseB? (s : String) : Option Bytes := (parseHex? s).map fun l => l.map (·.toBitVec)
def parseO? (s : String) : Option (Option Bytes) := if s = "-" then some none else (parseB? s).map some

/-- the value part of a result line -/
inductive R where
  | i (v : Int) | b (v : Option Bytes) | bad
def R.str : R → String
  | .i v => toString v
  | .b v => hexO v
  | .bad => "bad-op"

/-! ### model side -/

def encModel (name : String) (dst : Bytes) (args : List String) : Option String :=
  match name, args with
  | "uv", [a] => a.toInt?.map fun u => let u := BitVec.ofInt 32 u; s!"{hexB (appendUvarint dst u)} {uvarintLen u}"
  | "v", [a] => a.toInt?.map fun u => let u := BitVec.ofInt 32 u; s!"{hexB (appendVarint dst u)} {varintLen u}"
  | "vl", [a] => a.toInt?.map fun u => let u := BitVec.ofInt 64 u; s!"{hexB (appendVarlong dst u)} {varlongLen u}"
  | "bool", [a] => a.toInt?.map fun v => hexB (appendBool dst (v != 0))
  | "i8", [a] => a.toInt?.map fun v => hexB (appendInt8 dst (BitVec.ofInt 8 v))
  | "i16", [a] => a.toInt?.map fun v => hexB (appendInt16 dst (BitVec.ofInt 16 v))
  | "u16", [a] => a.toInt?.map fun v => hexB (appendUint16 dst (BitVec.ofInt 16 v))
  | "i32", [a] => a.toInt?.map fun v => hexB (appendInt32 dst (BitVec.ofInt 32 v))
  | "u32", [a] => a.toInt?.map fun v => hexB (appendUint32 dst (BitVec.ofInt 32 v))
  | "i64", [a] => a.toInt?.map fun v => hexB (appendInt64 dst (BitVec.ofInt 64 v))
  | "f64", [a] => a.toInt?.map fun v => hexB (appendFloat64 dst (BitVec.ofInt 64 v))
  | "uuid", [a] => (parseB? a).map fun v => hexB (appendUuid dst v)
  | "str", [a] => (parseB? a).map fun v => hexB (appendString dst v)
  | "cstr", [a] => (parseB? a).map fun v => hexB (appendCompactString dst v)
  | "nstr", [a] => (parseO? a).map fun v => hexB (appendNullableString dst v)
  | "cnstr", [a] => (parseO? a).map fun v => hexB (appendCompactNullableString dst v)
  | "bytes", [a] => (parseB? a).map fun v => hexB (appendBytes dst v)
  | "cbytes", [a] => (parseB? a).map fun v => hexB (appendCompactBytes dst v)
  | "nbytes", [a] => (parseO? a).map fun v => hexB (appendNullableBytes dst v)
  | "cnbytes", [a] => (parseO? a).map fun v => hexB (appendCompactNullableBytes dst v)
  | "vstr", [a] => (parseB? a).map fun v => hexB (appendVarintString dst v)
  | "vbytes", [a] => (parseO? a).map fun v => hexB (appendVarintBytes dst v)
  | "alen", [a] => a.toInt?.map fun v => hexB (appendArrayLen dst v)
  | "calen", [a] => a.toInt?.map fun v => hexB (appendCompactArrayLen dst v)
  | "nalen", [a, n] => a.toInt?.map fun v => hexB (appendNullableArrayLen dst v (n == "1"))
  | "cnalen", [a, n] => a.toInt?.map fun v => hexB (appendCompactNullableArrayLen dst v (n == "1"))
  | _, _ => none

def decModel (name : String) (inp : Bytes) : Option String :=
  let show32 (signed : Bool) (r : Option (BitVec 32 × Int)) : String :=
    match r with
    | some (x, n) => s!"{if signed then x.toInt else (x.toNat : Int)} {n}"
    | none => "panic"
  match name with
  | "uv" => some (show32 false (uvarint inp))
  | "v" => some (show32 true (varint inp))
  | "vl" => some (match varlong inp with | some (x, n) => s!"{x.toInt} {n}" | none => "panic")
  | _ => none

def ofU {w : Nat} (x : Option (BitVec w × Reader)) : Option (R × Reader) := x.map fun (v, r) => (.i v.toNat, r)
def ofS {w : Nat} (x : Option (BitVec w × Reader)) : Option (R × Reader) := x.map fun (v, r) => (.i v.toInt, r)
def ofB (x : Option (Bytes × Reader)) : Option (R × Reader) := x.map fun (v, r) => (.b (some v), r)
def ofO (x : Option (Option Bytes × Reader)) : Option (R × Reader) := x.map fun (v, r) => (.b v, r)

/-- method token → model method. Outer `none` = unknown token; inner `none` = panic. -/
def method (m : String) (r : Reader) : Option (Option (R × Reader)) :=
  match m with
  | "bool" => some ((r.bool).map fun (v, r) => (.i (if v then 1 else 0), r))
  | "i8" => some (ofS r.int8) | "i16" => some (ofS r.int16) | "u16" => some (ofU r.uint16)
  | "i32" => some (ofS r.int32) | "u32" => some (ofU r.uint32) | "i64" => some (ofS r.int64)
  | "f64" => some (ofU r.float64) | "uuid" => some (ofB r.uuid)
  | "v" => some (ofS r.varint) | "uv" => some (ofU r.uvarint) | "vl" => some (ofS r.varlong)
  | "str" | "ustr" => some (ofB r.string)
  | "cstr" | "ucstr" => some (ofB r.compactString)
  | "nstr" | "unstr" => some (ofO r.nullableString)
  | "cnstr" | "ucnstr" => some (ofO r.compactNullableString)
  | "bytes" => some (ofO r.bytes) | "cbytes" => some (ofO r.compactBytes)
  | "nbytes" => some (ofO r.nullableBytes) | "cnbytes" => some (ofO r.compactNullableBytes)
  | "alen" => some (ofS r.arrayLen) | "valen" => some (ofS r.varintArrayLen) | "calen" => some (ofS r.compactArrayLen)
  | "vbytes" => some (ofO r.varintBytes)
  | "vstr" | "uvstr" => some (ofB r.varintString)
  | _ =>
    if m.startsWith "span:" then
      match (m.drop 5).toString.toInt? with
      | some l => some (ofO (r.span l))
      | none => none
    else none

def readerModel (src : Option Bytes) (ms : List String) : String :=
  let r0 : Reader := { src := src.getD [], srcNil := src.isNone, bad := false }
  let rec go (r : Reader) (ms : List String) (acc : List String) : String :=
    match ms with
    | [] =>
      let s := if r.srcNil then "-" else hexB r.src
      " ".intercalate (acc.reverse ++ [s!"ok={boolStr r.ok}", s!"src={s}"])
    | m :: rest =>
      match method m r with
      | none => "bad-op"
      | some none => " ".intercalate (acc.reverse ++ ["panic"])
      | some (some (v, r')) => go r' rest (v.str :: acc)
  go r0 ms []

/-! ### spec side -/
open Spec.C17 hiding Bytes in
def encSpec (name : String) (dst : Bytes) (args : List String) : Option String :=
  let nat? (a : String) (lo hi : Int) : Option Int := a.toInt?.bind fun v => if lo ≤ v ∧ v < hi then some v else none
  let pre (len : Nat) (kind : String) : Option Bytes :=
    match kind with
    | "i16" => if len < 32768 then some (be 2 len) else none
    | "i32" => if len < 2147483648 then some (be 4 len) else none
    | "c" => if len + 1 < 4294967296 then some (encU (len + 1)) else none
    | "v" => if len < 2147483648 then some (encU (zz len)) else none
    | _ => none
  let lp (kind : String) (v : Option Bytes) (null : Bytes) : Option String :=
    match v with
    | none => some (hexB (dst ++ null))
    | some b => (pre b.length kind).map fun p => hexB (dst ++ p ++ b)
  match name, args with
  | "uv", [a] => (nat? a 0 4294967296).map fun u => s!"{hexB (dst ++ encU u.toNat)} {lenU u.toNat}"
  | "v", [a] => (nat? a (-2147483648) 2147483648).map fun i => s!"{hexB (dst ++ encU (zz i))} {lenU (zz i)}"
  | "vl", [a] => (nat? a (-9223372036854775808) 9223372036854775808).map fun i => s!"{hexB (dst ++ encU (zz i))} {lenU (zz i)}"
  | "bool", [a] => a.toInt?.map fun v => hexB (dst ++ [byte (if v != 0 then 1 else 0)])
  | "i8", [a] => (nat? a (-128) 128).map fun v => hexB (dst ++ be 1 (pattern 8 v))
  | "i16", [a] => (nat? a (-32768) 32768).map fun v => hexB (dst ++ be 2 (pattern 16 v))
  | "u16", [a] => (nat? a 0 65536).map fun v => hexB (dst ++ be 2 v.toNat)
  | "i32", [a] => (nat? a (-2147483648) 2147483648).map fun v => hexB (dst ++ be 4 (pattern 32 v))
  | "u32", [a] => (nat? a 0 4294967296).map fun v => hexB (dst ++ be 4 v.toNat)
  | "i64", [a] => (nat? a (-9223372036854775808) 9223372036854775808).map fun v => hexB (dst ++ be 8 (pattern 64 v))
  | "f64", [a] => (nat? a 0 18446744073709551616).map fun v => hexB (dst ++ be 8 v.toNat)
  | "uuid", [a] => (parseB? a).bind fun v => if v.length = 16 then some (hexB (dst ++ v)) else none
  | "str", [a] => (parseB? a).bind fun v => lp "i16" (some v) []
  | "nstr", [a] => (parseO? a).bind fun v => lp "i16" v (be 2 (pattern 16 (-1)))
  | "cstr", [a] => (parseB? a).bind fun v => lp "c" (some v) []
  | "cnstr", [a] => (parseO? a).bind fun v => lp "c" v (encU 0)
  | "bytes", [a] => (parseB? a).bind fun v => lp "i32" (some v) []
  | "nbytes", [a] => (parseO? a).bind fun v => lp "i32" v (be 4 (pattern 32 (-1)))
  | "cbytes", [a] => (parseB? a).bind fun v => lp "c" (some v) []
  | "cnbytes", [a] => (parseO? a).bind fun v => lp "c" v (encU 0)
  | "vstr", [a] => (parseB? a).bind fun v => lp "v" (some v) []
  | "vbytes", [a] => (parseO? a).bind fun v => lp "v" v (encU (zz (-1)))
  | "alen", [a] => (nat? a (-2147483648) 2147483648).map fun v => hexB (dst ++ be 4 (pattern 32 v))
  | "calen", [a] => (nat? a 0 4294967295).map fun v => hexB (dst ++ encU (v.toNat + 1))
  | "nalen", [a, n] => (nat? a (-2147483648) 2147483648).map fun v =>
      hexB (dst ++ be 4 (pattern 32 (if n == "1" then -1 else v)))
  | "cnalen", [a, n] => (nat? a 0 4294967295).map fun v => hexB (dst ++ encU (if n == "1" then 0 else v.toNat + 1))
  | _, _ => none

open Spec.C17 hiding Bytes in
def decSpec (name : String) (inp : Bytes) : Option String :=
  match name with
  | "uv" => let (v, n) := decU 32 5 inp; some s!"{v} {n}"
  | "v" => let (v, n) := decS 32 5 inp; some s!"{v} {n}"
  | "vl" => let (v, n) := decS 64 10 inp; some s!"{v} {n}"
  | _ => none

open Spec.C17 hiding Bytes in
def kindOf (m : String) : Option Kind :=
  match m with
  | "bool" => some .bool | "i8" => some .int8 | "i16" => some .int16 | "u16" => some .uint16
  | "i32" => some .int32 | "u32" => some .uint32 | "i64" => some .int64 | "f64" => some .float64
  | "uuid" => some .uuid | "v" => some .varint | "uv" => some .uvarint | "vl" => some .varlong
  | "str" | "ustr" => some .string | "cstr" | "ucstr" => some .compactString
  | "nstr" | "unstr" => some .nullableString | "cnstr" | "ucnstr" => some .compactNullableString
  | "bytes" => some .bytes | "cbytes" => some .compactBytes | "nbytes" => some .nullableBytes
  | "cnbytes" => some .compactNullableBytes | "alen" => some .arrayLen | "valen" => some .varintArrayLen
  | "calen" => some .compactArrayLen | "vbytes" => some .varintBytes | "vstr" | "uvstr" => some .varintString
  | _ => if m.startsWith "span:" then ((m.drop 5).toString.toInt?).map Kind.span else none

open Spec.C17 hiding Bytes in
/-- does the printed implementation result `tok` denote the Spec value? (nil and empty are the same
value except where nil means null) -/
def valMatches (v : Val) (tok : String) : Bool :=
  match v with
  | .int i => tok.toInt? == some i
  | .bool b => tok == (if b then "1" else "0")
  | .bytes b => (tok == "-" && b.isEmpty) || parseB? tok == some b
  | .null => tok == "-"

open Spec.C17 hiding Bytes in
/-- Spec on a reader line: walk the methods with the Spec state, compare with the implementation's tokens. -/
def readerSpec (src : Option Bytes) (ms : List String) (impl : List String) : Bool :=
  let rec go (s : RState) (ms : List String) (impl : List String) : Bool :=
    match ms, impl with
    | [], [okT, srcT] =>
      okT == s!"ok={boolStr s.ok}" &&
        (if s.ok then srcT == s!"src={hexB s.src}" || (s.src.isEmpty && srcT == "src=-") else srcT == "src=-")
    | m :: ms, t :: impl =>
      match kindOf m with
      | none => false
      | some k =>
        let (v, s') := step k s
        (match v with | some v => valMatches v t | none => true) && go s' ms impl
    | _, _ => false
  go { src := src.getD [], ok := true } ms impl

/-! ### sweeps -/

def fnvStep (h x : UInt64) : UInt64 := (h ^^^ x) * 1099511628211
def fnvBytes (h : UInt64) (bs : Bytes) : UInt64 := bs.foldl (fun h b => fnvStep h b.toNat.toUInt64) h

open Spec.C17 hiding Bytes in
/-- one sweep element: returns the folded hash and whether the Spec holds of the model's outputs -/
def sweepOne (kind : String) (h : UInt64) (x : Nat) : UInt64 × Bool :=
  match kind with
  | "uv" =>
    let u := BitVec.ofNat 32 x
    let bs := appendUvarint [] u
    let l := uvarintLen u
    let d := uvarint bs
    let (dv, dn) := match d with | some (v, n) => (v.toNat, n) | none => (0, -99)
    let h := fnvStep (fnvStep (fnvStep (fnvBytes h bs) l.toUInt64) dv.toUInt64) ((dn + 100).toNat.toUInt64)
    (h, bs == encU u.toNat && l == lenU u.toNat && dv == u.toNat && dn == (l : Int))
  | "v" =>
    let u := BitVec.ofNat 32 x
    let bs := appendVarint [] u
    let l := varintLen u
    let d := varint bs
    let (dv, dn) := match d with | some (v, n) => (v, n) | none => (0, -99)
    let h := fnvStep (fnvStep (fnvStep (fnvBytes h bs) l.toUInt64) dv.toNat.toUInt64) ((dn + 100).toNat.toUInt64)
    (h, bs == encU (zz u.toInt) && l == lenU (zz u.toInt) && dv == u && dn == (l : Int))
  | _ =>
    let u := BitVec.ofNat 64 x
    let bs := appendVarlong [] u
    let l := varlongLen u
    let d := varlong bs
    let (dv, dn) := match d with | some (v, n) => (v, n) | none => (0, -99)
    let h := fnvStep (fnvStep (fnvStep (fnvBytes h bs) l.toUInt64) dv.toNat.toUInt64) ((dn + 100).toNat.toUInt64)
    (h, bs == encU (zz u.toInt) && l == lenU (zz u.toInt) && dv == u && dn == (l : Int))

def sweep (kind : String) (start step count : Nat) : UInt64 × Bool := Id.run do
  let m : Nat := if kind == "vl" then 18446744073709551616 else 4294967296
  let mut h : UInt64 := 14695981039346656037
  let mut ok := true
  let mut x := start % m
  for _ in [0:count] do
    let (h', o) := sweepOne kind h x
    h := h'
    ok := ok && o
    x := (x + step) % m
  return (h, ok)

/-! ### line handler -/

/-- split `pub ## priv` -/
def splitPriv (impl : String) : String × Option String :=
  match impl.splitOn " ## " with
  | [a] => (a, none)
  | a :: rest => (a, some (" ## ".intercalate rest))
  | [] => (impl, none)

def verdict (priv : Option String) (specHolds : Option Bool) : String :=
  match priv with
  | some _ => "0:private-copy-differs"
  | none => match specHolds with
    | some true => "1"
    | some false => "0"
    | none => "-"

def step (_ : Unit) (line : String) : Unit × String :=
  let (op, implAll) := splitBar line
  let (impl, priv) := splitPriv implAll
  let out := match toks op with
    | "e" :: name :: dst :: args =>
      match parseB? dst with
      | none => "bad-op | - | 0"
      | some d =>
        match encModel name d args with
        | none => "bad-op | - | 0"
        | some m =>
          let sp := encSpec name d args
          let nt := boolStr (m.length > 2 + 2 * d.length + (if name == "uv" || name == "v" || name == "vl" then 2 else 0))
          s!"{m} | {verdict priv (sp.map (· == impl))} | {nt}"
    | ["d", name, inp] =>
      match parseB? inp with
      | none => "bad-op | - | 0"
      | some b =>
        match decModel name b with
        | none => "bad-op | - | 0"
        | some m => s!"{m} | {verdict priv ((decSpec name b).map (· == impl))} | {boolStr (b.length ≥ 2)}"
    | "r" :: src :: ms =>
      match parseO? src with
      | none => "bad-op | - | 0"
      | some s =>
        let m := readerModel s ms
        let v := readerSpec s ms (toks impl)
        s!"{m} | {verdict priv (some v)} | {boolStr ((s.getD []).length ≥ 2 && !ms.isEmpty)}"
    | ["sw", kind, a, b, c] =>
      match a.toNat?, b.toNat?, c.toNat? with
      | some a, some b, some c =>
        let (h, ok) := sweep kind a b c
        -- the Spec is evaluated on the model's outputs; it carries over to the implementation iff the hashes agree
        let v := if toString h.toNat == impl then some ok else none
        s!"{h.toNat} | {verdict priv v} | 1"
      | _, _, _ => "bad-op | - | 0"
    | _ => "bad-op | - | 0"
  ((), out)

end C17D

def main : IO UInt32 := runLoop () C17D.step
