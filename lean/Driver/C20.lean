import Driver.Common
import FranzVerif.Model.C20
import FranzVerif.Spec.C20
/-! Sub-driver C20. Input lines `op | impl`; output `model | verdict | nontrivial`.

  rt <ast> <layoutHex> <chunk> <k> <rec>*k | S=<hex> R=<rec>/…/<term>      (or `nf-err` / `nr-err`)
      the formatter writes the k records with the layout, a reader with the same layout reads the stream until
      it fails.  Verdict: `Spec.C20.specStream` on the implementation's reader results, when the hypotheses
      `WF ∧ Unambiguous ∧ ∀r, RecOK r ∧ Fits L r` hold (else `-`).  Keys of a failure:
        size-of-encoded-text     the layout has a sized `{hex}`/`{base64}` text verb and that field is non-empty
        negative-ascii-number    an `{ascii}` number of the case is negative
        layout-rejected / panic / hang / roundtrip   anything else
  rd <ast> <layoutHex> <chunk> <streamHex>   | R=<rec>/…/<term>
      the reader alone on arbitrary bytes (truncated / mutated formatter output, hostile sizes; also the
      formatter's own output for cases outside the proved class): model and implementation are compared, verdict `-`.
  fm <ast> <layoutHex> <chunk> <k> <rec>*k   | S=<hex>
      the formatter alone (emitted next to every rt case outside the proved class, because the pipeline does not
      report model/implementation differences on lines whose verdict is a known finding): compared, verdict `-`.

`<ast>`: items joined by `,`: `L<hex>` literal, `N:<T|K|V|H|p|o|e|d|x|y>:<fmt>`, `X:<t|k|v>:<p|h|b>`,
`H(<items joined by ;>)`.  `<fmt>`: a h64 h32 h16 h8 h4 b64 b32 b16 l64 l32 l16 y(byte) o(bool).
`<rec>`: `topic;key;value;partition;offset;tsNanos|z;leaderEpoch;producerId;producerEpoch;hdrs` with
`hdrs` = `.` or `k:v,k:v`; bytes in hex, `.` empty, `-` nil.  `<term>`: eof ueof err more.
`<layoutHex>` (the layout string given to the Go code) and `<chunk>` (how the Go io.Reader is chopped) are not
used by the model. -/
open Driver Model.C20 Spec.C20

def splitC (c : Char) (s : String) : List String :=
  let rec go : List Char → List Char → List String → List String
    | [], cur, acc => (String.ofList cur.reverse :: acc).reverse
    | x :: xs, cur, acc => if x == c then go xs [] (String.ofList cur.reverse :: acc) else go xs (x :: cur) acc
  go s.toList [] []

def dropS (n : Nat) (s : String) : String := String.ofList (s.toList.drop n)

def pBytes (s : String) : Option Bytes :=
  if s = "-" || s = "." then some [] else parseHex? s

def pFmt : String → Option NumFmt
  | "a" => some .ascii | "h64" => some .hex64 | "h32" => some .hex32 | "h16" => some .hex16
  | "h8" => some .hex8 | "h4" => some .hex4 | "b64" => some .big64 | "b32" => some .big32
  | "b16" => some .big16 | "l64" => some .little64 | "l32" => some .little32 | "l16" => some .little16
  | "y" => some .byte | "o" => some .bool | _ => none

def pNumField : String → Option NumField
  | "T" => some .topicLen | "K" => some .keyLen | "V" => some .valueLen | "H" => some .hdrCount
  | "p" => some .partition | "o" => some .offset | "e" => some .leaderEpoch | "d" => some .timestamp
  | "x" => some .producerId | "y" => some .producerEpoch | _ => none

def pTextField : String → Option TextField
  | "t" => some .topic | "k" => some .key | "v" => some .value | _ => none

def pEnc : String → Option Enc
  | "p" => some .plain | "h" => some .hex | "b" => some .base64 | _ => none

def pFItem (s : String) : Option FItem :=
  match splitC ':' s with
  | ["N", a, b] => do let fld ← pNumField a; let f ← pFmt b; pure (.num fld f)
  | ["X", a, b] => do let fld ← pTextField a; let e ← pEnc b; pure (.text fld e)
  | [l] => if l.startsWith "L" then (parseHex? (dropS 1 l)).map .lit else none
  | _ => none

def pItem (s : String) : Option Item :=
  if s.startsWith "H(" && s.endsWith ")" then
    let inner := String.ofList ((s.toList.drop 2).dropLast)
    (if inner.isEmpty then some [] else (splitC ';' inner).mapM pFItem).map .hdrs
  else (pFItem s).map .flat

def pLayout (s : String) : Option Layout := (splitC ',' s).mapM pItem

def pHdr (s : String) : Option Hdr :=
  match splitC ':' s with
  | [k, v] => do let k ← pBytes k; let v ← pBytes v; pure ⟨k, v⟩
  | _ => none

def pRec (s : String) : Option Rec :=
  match splitC ';' s with
  | [t, k, v, p, o, ts, le, pid, pe, hs] => do
    let t ← pBytes t; let k ← pBytes k; let v ← pBytes v
    let p ← p.toInt?; let o ← o.toInt?; let le ← le.toInt?; let pid ← pid.toInt?; let pe ← pe.toInt?
    let ts ← (if ts = "z" then some none else ts.toInt?.map some)
    let hs ← (if hs = "." then some [] else (splitC ',' hs).mapM pHdr)
    pure { topic := t, key := k, value := v, headers := hs, partition := p, offset := o, leaderEpoch := le,
           producerId := pid, producerEpoch := pe, ts := ts }
  | _ => none

/-- what the harness prints for a record the reader returned: `dupslice` makes empty keys/values nil -/
def nilHex (b : Bytes) : String := if b.isEmpty then "-" else toHex b

def showRec (r : Rec) : String :=
  let hs := if r.headers.isEmpty then "." else ",".intercalate (r.headers.map fun h => toHex h.key ++ ":" ++ nilHex h.value)
  let ts := match r.ts with | some n => toString n | none => "z"
  s!"{toHex r.topic};{nilHex r.key};{nilHex r.value};{r.partition};{r.offset};{ts};{r.leaderEpoch};{r.producerId};{r.producerEpoch};{hs}"

def showTerm : Term → String
  | .eof => "eof" | .ueof => "ueof" | .other => "err" | .more => "more"

def showRun (out : List Rec × Term) : String :=
  "R=" ++ "/".intercalate (out.1.map showRec ++ [showTerm out.2])

/-- the harness stops after this many successful reads -/
def maxReads : Nat := 1000

def hasField (L : Layout) : Bool :=
  L.any fun | .flat (.lit _) => false | _ => true

/-- the class of finding g can explain a failure only if an encoded text field is non-empty somewhere -/
def encodedNonEmptyF (r : Rec) : FItem → Bool
  | .text fld e => e != .plain && !(textVal r fld).isEmpty
  | _ => false

def encodedNonEmpty (L : Layout) (r : Rec) : Bool :=
  L.any fun
    | .flat i => encodedNonEmptyF r i
    | .hdrs inner => r.headers.any fun h => inner.any (encodedNonEmptyF (hdrRec h))

def supported (L : Layout) : Bool := WF L

def stepLine (_ : Unit) (line : String) : Unit × String :=
  let (op, impl) := splitBar line
  match toks op with
  | "rt" :: ast :: _lay :: _chunk :: k :: recs =>
    match pLayout ast, k.toNat?, recs.mapM pRec with
    | some L, some k, some rs =>
      if k != rs.length then ((), "bad-op | - | 0") else
      if !supported L then ((), "unsupported-layout | - | 0") else
      let S := formatAll L rs
      let out := readAll L maxReads S false
      let mout := s!"S={toHex S} {showRun out}"
      let applicable := Unambiguous L && rs.all fun r => RecOK r && Fits L r
      let want := showRun (rs.map (restrict L), Term.eof)
      let implR := match toks impl with
        | [_, r] => r
        | _ => impl
      let verdict :=
        if !applicable then "-"
        else if implR == want then "1"
        else if rs.any (encodedNonEmpty L) then "0:size-of-encoded-text"
        else if rs.any (fun r => !NonNegAscii L r) then "0:negative-ascii-number"
        else if impl == "nf-err" || impl == "nr-err" then "0:layout-rejected"
        else if impl.startsWith "panic" then "0:panic"
        else if impl == "hang" then "0:hang"
        else "0:roundtrip"
      let nt := boolStr (k > 0 && hasField L)
      ((), s!"{mout} | {verdict} | {nt}")
    | _, _, _ => ((), "bad-op | - | 0")
  | "fm" :: ast :: _lay :: _chunk :: k :: recs =>
    match pLayout ast, k.toNat?, recs.mapM pRec with
    | some L, some k, some rs =>
      if k != rs.length then ((), "bad-op | - | 0") else
      if !supported L then ((), "unsupported-layout | - | 0") else
      ((), s!"S={toHex (formatAll L rs)} | - | {boolStr (k > 0 && hasField L)}")
    | _, _, _ => ((), "bad-op | - | 0")
  | ["rd", ast, _lay, _chunk, stream] =>
    match pLayout ast, pBytes stream with
    | some L, some S =>
      if !supported L then ((), "unsupported-layout | - | 0") else
      let out := readAll L maxReads S false
      ((), s!"{showRun out} | - | {boolStr (!S.isEmpty)}")
    | _, _ => ((), "bad-op | - | 0")
  | _ => ((), "bad-op | - | 0")

def main : IO UInt32 := runLoop () stepLine
