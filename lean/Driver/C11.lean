import Driver.Common
import FranzVerif.Model.Txn
/-! Sub-driver C11: `txn` scenarios (monitor `Model.Txn`, the records of a transactional producer) and `tofs`
scenarios (monitor `Model.TxnOffsets`, the offsets and records of GroupTransactSession transactions). -/
open Driver

namespace T
open Model.Txn

def parseEv (t : String) : Option (Option Ev) :=
  match t.splitOn ":" with
  | ["Tb", k, r] => do some (some (.begin_ (← k.toNat?) (r == "ok")))
  | ["P", id, k, p] => do some (some (.produce (← id.toNat?) (← k.toNat?) (← p.toNat?)))
  | ["R", id, e, p, o] => do some (some (.promise (← id.toNat?) (e == "0") (← p.toNat?) (← o.toInt?)))
  | ["Ts", k, c] => do some (some (.endStart (← k.toNat?) (c == "c")))
  | ["Te", k, c, r] => do some (some (.endDone (← k.toNat?) (c == "c") (r == "ok")))
  | ["L", p, o, id] => do some (some (.visible (← p.toNat?) (← o.toNat?) (← id.toNat?)))
  | ["U", p, o, id] => do some (some (.raw (← p.toNat?) (← o.toNat?) (← id.toNat?)))
  | ["Q"] => some (some .quiesce)
  | ["ERRclient"] => some (some .incomplete)
  | ["ERRreadback"] => some (some .incomplete)
  | ["F", key, _nth, act] => do some (some (.fault (← key.toNat?) (← act.toNat?)))
  | ["Tr", _k, _r] => some none   -- the application's TryAbort retry after a failed End: what End reported for k stays the error
  | _ => none

def refusals : St → List Ev → List String → List String
  | _, [], acc => acc.reverse
  | s, e :: es, acc =>
    match check s e with
    | none => refusals (apply s e) es acc
    | some r => refusals (apply s e) es (r :: acc)

def handle (impl : String) : String :=
  match toks impl with
  | [] => "!empty | - | 0"
  | _cfg :: ets =>
    let evs := ets.map parseEv
    if evs.any (·.isNone) then "!bad-event | - | 0" else
    let es := (evs.filterMap id).filterMap id
    let rs := refusals {} es []
    let nFault := (es.filter (fun e => match e with | .fault _ _ => true | _ => false)).length
    let nAbort := (es.filter (fun e => match e with | .endDone _ c ok => !c || !ok | _ => false)).length
    let nt := boolStr (decide (nFault > 0) || decide (nAbort > 0))
    match rs with
    | [] => s!"* | 1 | {nt}"
    | r :: _ => s!"* | 0:{r} | {nt}"

end T

namespace O
open Model.TxnOffsets

def parseRes (r : String) : Option Res :=
  if r == "committed" then some .committed else if r == "aborted" then some .aborted else if r == "err" then some .error else none

def parseEv (t : String) : Option (Option Ev) :=
  match t.splitOn ":" with
  | ["Ms", m, slot] => do some (some (.memberStart (← m.toNat?) (← slot.toNat?)))
  | ["Mx", m] => do some (some (.memberStop (← m.toNat?)))
  | ["Mk", m, t] => do some (some (.memberKill (← m.toNat?) (← t.toNat?)))
  | ["B", m, t, r] => do some (some (.begin_ (← m.toNat?) (← t.toNat?) (r == "ok")))
  | ["W", t, p, o] => do some (some (.want (← t.toNat?) (← p.toNat?) (← o.toInt?)))
  | ["P", t, id] => do some (some (.produce (← t.toNat?) (← id.toNat?)))
  | ["R", id, r] => do some (some (.promise (← id.toNat?) (r == "ok")))
  | ["Es", m, t, c] => do some (some (.endStart (← m.toNat?) (← t.toNat?) (c == "c")))
  | ["Ee", m, t, r] => do some (some (.endDone (← m.toNat?) (← t.toNat?) (← parseRes r)))
  | ["Er", m, t, r] => do some (some (.retry (← m.toNat?) (← t.toNat?) (← parseRes r)))
  | ["G", m, t, p, o] => do some (some (.observe (← m.toNat?) (← t.toNat?) (← p.toNat?) (← o.toInt?)))
  | ["X", _, _, "unknown"] => some none
  | ["X", m, t, st] => do some (some (.coord (← m.toNat?) (← t.toNat?) (st == "open")))
  | ["F", key, _nth, act, t, c] => do some (some (.fault (← key.toNat?) (← act.toNat?) (← t.toNat?) (c == "1")))
  | ["Gf", p, o] => do some (some (.final (← p.toNat?) (← o.toInt?)))
  | ["O", p, o, id] => do some (some (.output (← p.toNat?) (← o.toNat?) (← id.toNat?)))
  | ["Q"] => some (some .quiesce)
  | ["ERRclient"] => some (some .incomplete)
  | ["ERRreadback"] => some (some .incomplete)
  | ["ERRinput"] => some (some .incomplete)
  | ["ERRobserve"] => some (some .incomplete)
  | _ => none

def refusals : St → List Ev → List String → List String
  | _, [], acc => acc.reverse
  | s, e :: es, acc =>
    match check s e with
    | none => refusals (apply s e) es acc
    | some r => refusals (apply s e) es (r :: acc)

/-- `cfg:<members>:<parts>:<flow>` -/
def isSingle (cfg : String) : Bool :=
  match cfg.splitOn ":" with
  | ["cfg", m, _, _] => m == "1"
  | _ => false

def handle (impl : String) : String :=
  match toks impl with
  | [] => "!empty | - | 0"
  | cfg :: ets =>
    let evs := ets.map parseEv
    if evs.any (·.isNone) then "!bad-event | - | 0" else
    let es := (evs.filterMap id).filterMap id
    let rs := refusals { single := isSingle cfg } es []
    let nFault := (es.filter (fun e => match e with | .fault _ _ _ _ => true | _ => false)).length
    let nNot := (es.filter (fun e => match e with | .endDone _ _ r => r != .committed | .memberKill _ _ => true | _ => false)).length
    -- a committed transaction that produced nothing (offsets only)
    let produced := es.filterMap (fun e => match e with | .produce t _ => some t | _ => none)
    let nOnly := (es.filter (fun e => match e with | .endDone _ t r => r == .committed && !produced.contains t | _ => false)).length
    let nt := boolStr (decide (nFault > 0) || decide (nNot > 0) || decide (nOnly > 0))
    -- the first refusal that is not the listed finding, if there is one (so that the listed finding does not hide another class)
    match rs.filter (· != "C11.unconfirmed-commit-took-effect"), rs with
    | r :: _, _ => s!"* | 0:{r} | {nt}"
    | [], r :: _ => s!"* | 0:{r} | {nt}"
    | [], [] => s!"* | 1 | {nt}"

end O

def handle (line : String) : String :=
  let (op, impl) := splitBar line
  if impl.startsWith "PANIC" || impl.startsWith "HANG" || impl.startsWith "ERR" then
    s!"* | 0:C11.scenario-{((impl.splitOn ":").head!.splitOn " ").head!.toLower} | 1"
  else if op.startsWith "tofs" then O.handle impl
  else T.handle impl

def main : IO UInt32 := runLoop () (fun _ line => ((), handle line))
