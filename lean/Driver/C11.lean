import Driver.Common
import FranzVerif.Model.Txn
/-! Sub-driver C11 (`txn` scenarios). -/
open Driver Model.Txn

def parseEv (t : String) : Option (Option Ev) :=
  match t.splitOn ":" with
  | ["Tb", k, r] => do some (some (.begin_ (← k.toNat?) (r == "ok")))
  | ["P", id, k, p] => do some (some (.produce (← id.toNat?) (← k.toNat?) (← p.toNat?)))
  | ["R", id, e, p, o] => do some (some (.promise (← id.toNat?) (e == "0") (← p.toNat?) (← o.toInt?)))
  | ["Ts", k, c] => do some (some (.endStart (← k.toNat?) (c == "c")))
  | ["Te", k, c, r] => do some (some (.endDone (← k.toNat?) (c == "c") (r == "ok")))
  | ["L", p, o, id] => do some (some (.visible (← p.toNat?) (← o.toNat?) (← id.toNat?)))
  | ["U", p, o, id] => do some (some (.raw (← p.toNat?) (← o.toNat?) (← id.toNat?)))
  | ["Q"] => some (some .quiesce)
  | ["ERRclient"] => some (some .incomplete)
  | ["ERRreadback"] => some (some .incomplete)
  | ["F", key, _nth, act] => do some (some (.fault (← key.toNat?) (← act.toNat?)))
  | _ => none

def refusals : St → List Ev → List String → List String
  | _, [], acc => acc.reverse
  | s, e :: es, acc =>
    match check s e with
    | none => refusals (apply s e) es acc
    | some r => refusals (apply s e) es (r :: acc)

def handle (line : String) : String :=
  let (_, impl) := splitBar line
  if impl.startsWith "PANIC" || impl.startsWith "HANG" || impl.startsWith "ERR" then
    s!"* | 0:C11.scenario-{((impl.splitOn ":").head!.splitOn " ").head!.toLower} | 1"
  else
  match toks impl with
  | [] => "!empty | - | 0"
  | _cfg :: ets =>
    let evs := ets.map parseEv
    if evs.any (·.isNone) then "!bad-event | - | 0" else
    let es := (evs.filterMap id).filterMap id
    let rs := refusals {} es []
    let nFault := (es.filter (fun e => match e with | .fault _ _ => true | _ => false)).length
    let nAbort := (es.filter (fun e => match e with | .endDone _ c ok => !c || !ok | _ => false)).length
    let nt := boolStr (decide (nFault > 0) || decide (nAbort > 0))
    match rs with
    | [] => s!"* | 1 | {nt}"
    | r :: _ => s!"* | 0:{r} | {nt}"

def main : IO UInt32 := runLoop () (fun _ line => ((), handle line))
