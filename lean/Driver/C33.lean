import Driver.Common
import FranzVerif.Model.C33
/-! Sub-driver C33. Input lines `op | impl`; output `model | verdict | nontrivial | clause` (see harness/cmd/c33/main.go).

A lineage is `reset` (generation 1 on an empty fs) followed by `cont` (more workload), `peek k tail` (crash image of the
printed trace, restart, read back, lineage not advanced), `crash k tail` (same, lineage continues on the restarted
instance), `close` (clean Close, restart, read back, lineage continues) and `probe` (produces + live read back).

The model side: the crash image is computed by the model's file system from the recorded trace (prefix `k`, tail
choice) on the image the instance started on, then the model's recovery (`readEntries`, `loadSegment`, `loadPartition`
with the snapshot acceptance decision, `replayCommits`) predicts the tokens `ok|fail`, `f:` (image), `t:` `p:` `u:` `a:`
`c:` `g:`; the tokens `d:` / `x:` (producer / transaction listing) are not modelled and are copied from the
implementation's output. The start-up truncations the model predicts are compared with the recorded ones.

The Spec side (independent of the model): evaluated on the implementation's tokens and on the request marks of the
traces of all generations (`Q:` issued, `A:` acknowledged) that precede the stops. -/
open Driver Model.C33

namespace C33

structure Item where
  op : Op
  text : String            -- marks only
deriving Inhabited

def splitColon (s : String) : List String := s.splitOn ":"

def parseItem (s : String) : Item :=
  match splitColon s with
  | ["C", p] => ⟨.create p, ""⟩
  | ["W", p, h] => ⟨.write p ((parseHex? h).getD []), ""⟩
  | ["S", p] => ⟨.sync p, ""⟩
  | ["R", a, b] => ⟨.rename a b, ""⟩
  | ["X", p] => ⟨.remove p, ""⟩
  | ["XA", p] => ⟨.removeAll p, ""⟩
  | ["T", p, n] => ⟨.truncate p n.toNat!, ""⟩
  | ["M", p] => ⟨.mkdir p, ""⟩
  | _ => ⟨.mark, s⟩

def parseTrace (toksL : List String) : List Item :=
  match toksL with
  | ["-"] => []
  | l => l.map parseItem

/-- annotation dictionary: bytes of a `W` item ↦ annotation of the following `N:` item. -/
def buildDict : List Item → List (Bytes × String)
  | ⟨.write _ bs, _⟩ :: ⟨.mark, t⟩ :: r =>
    if t.startsWith "N:" then (bs, (t.drop 2).toString) :: buildDict r else buildDict (⟨.mark, t⟩ :: r)
  | _ :: r => buildDict r
  | [] => []

def lookup (d : List (Bytes × String)) (bs : Bytes) : Option String := (d.find? (·.1 == bs)).map (·.2)

def sortStr (xs : List String) : List String := sortBy (fun a b => decide (a < b)) xs

/-- tail choice: K | L | K.i.n | L.i.n -/
def applyTail (fs : FS) (choice : String) : FS :=
  let parts := choice.splitOn "."
  let tf := sortStr ((fs.filter (fun x => !x.2.tail.isEmpty)).map (·.1))
  let special : Option (String × Nat) :=
    match parts with
    | [_, i, n] =>
      if tf.isEmpty then none else
      let p := tf.getD (i.toNat! % tf.length) ""
      match fs.get p with
      | some f => some (p, n.toNat! % (f.tail.length + 1))
      | none => none
    | _ => none
  let loseAll := parts.head? == some "L"
  FS.crash fs fun p f =>
    match special with
    | some (q, n) => if p == q then n else if loseAll then 0 else f.tail.length
    | none => if loseAll then 0 else f.tail.length

def hex8 (n : Nat) : String :=
  String.ofList ((List.range 8).reverse.map fun i => hexDigit (n / 16 ^ i % 16))

def batchTok (b : Batch) : String :=
  let fl := if b.isControl then (if b.isAbort then "A" else "C") else if b.isTxnl then "t" else "d"
  s!"{b.first}.{b.nrec}.{b.pid}.{b.epoch}.{b.seq}.{fl}.{hex8 b.crc}"

def joinOr (xs : List String) (sep : String) : String := if xs.isEmpty then "-" else sep.intercalate xs

def parseSnap (ann : String) : Option Snap :=
  match ann.splitOn "," with
  | ["snap", h, l, s, ab, sg] =>
    let abl := if ab == "-" then [] else (ab.splitOn ";").filterMap fun x =>
      match x.splitOn "@" with
      | [p, f, la] => some (⟨p.toInt!, f.toNat!, la.toNat!⟩ : Aborted)
      | _ => none
    let sgl := if sg == "-" then [] else (sg.splitOn ";").filterMap fun x =>
      match x.splitOn "@" with
      | [b, z] => some (b.toNat!, z.toNat!)
      | _ => none
    some ⟨h.toNat!, l.toNat!, s.toNat!, abl, sgl⟩
  | _ => none

def parseGEntry (ann : Option String) : GEntry :=
  match ann with
  | some a =>
    match a.splitOn "," with
    | ["gl", "commit", g, tp, o] => .commit g tp o.toInt!
    | ["gl", "delete", g, tp] => .delete g tp
    | _ => .other
  | none => .other

structure Recovered where
  toks : List String
  ok : Bool
  skew : Bool      -- the image has a segment with more complete batches than complete index entries (a torn append)
  junk : Bool      -- groups.log had trailing bytes that replay ignored
  truncs : List String := []   -- `T:path:n` the truncations start-up performs on this image, sorted

def dataDir := "/d"

/-- model of start-up on a crash image. -/
def recover (dict : List (Bytes × String)) (fs : FS) : Recovered :=
  let files := sortStr (fs.map fun (p, f) => s!"f:{p}:{f.all.length}")
  let content := fun (p : String) => (fs.get p).map (·.all)
  match content (dataDir ++ "/meta.json") with
  | none =>
    -- no meta.json: nothing is loaded, the cluster starts fresh with its seed topic
    let z := ["t0-0", "t0-1"].flatMap fun tp => [s!"p:{tp}:0:0:0:0", s!"u:{tp}:-", s!"a:{tp}:-", s!"c:{tp}:-"]
    ⟨["ok"] ++ files ++ ["t:t0:2"] ++ z, true, false, false, []⟩
  | some metaBytes =>
    let jsonOK := fun (name : String) => match content (dataDir ++ "/" ++ name) with
      | none => true
      | some bs => (lookup dict bs).isSome
    let allOK := (lookup dict metaBytes).isSome && ["broker_configs.json", "topics.json", "acls.json", "sasl.json", "quotas.json", "seq_windows.json"].all jsonOK
    if !allOK then ⟨["fail"] ++ files, false, false, false, []⟩ else
    let topics : List (String × Nat) :=
      match (content (dataDir ++ "/topics.json")).bind (lookup dict) with
      | some ann =>
        match ann.splitOn "," with
        | ["topics", l] => if l == "-" then [] else (l.splitOn ";").filterMap fun x =>
            match x.splitOn "@" with
            | [n, c] => some (n, c.toNat!)
            | _ => none
        | _ => []
      | none => []
    let topics := sortBy (fun a b => decide (a.1 < b.1)) topics
    let tTok := topics.map fun (n, c) => s!"t:{n}:{c}"
    let parts := topics.flatMap fun (n, c) => (List.range c).map fun p => s!"{n}-{p}"
    let loaded := parts.map fun tp =>
      let dir := dataDir ++ "/partitions/" ++ tp ++ "/"
      let bases := fs.filterMap fun (p, _) =>
        if p.startsWith dir && p.endsWith ".dat" then ((p.drop dir.length).dropEnd 4).toString.toNat? else none
      let bases := sortBy (fun a b => decide (a < b)) bases
      let segs := bases.map fun b =>
        (b, (content (dir ++ toString b ++ ".dat")).getD [], content (dir ++ toString b ++ ".idx"))
      let snapBytes := content (dir ++ "snapshot.json")
      let snap := (snapBytes.bind (lookup dict)).bind parseSnap
      -- classification only: batches in the segment file counted without looking at the index
      let torn := segs.any fun (_, raw, idx) => decide ((idx.getD []).length < (loadSegment crc32c raw none).length * indexEntrySize)
      let tr := segs.flatMap fun (b, raw, idx) =>
        let (td, ti) := segmentTruncs crc32c raw idx
        (match td with | some n => [s!"T:{dir}{b}.dat:{n}"] | none => []) ++
        (match ti with | some n => [s!"T:{dir}{b}.idx:{n}"] | none => [])
      (tp, loadPartition crc32c segs snapBytes.isSome snap, torn, tr)
    -- in-progress transactions restored from session_state.json (present only after a clean Close)
    let sess : List (String × Nat) :=
      match (content (dataDir ++ "/session_state.json")).bind (lookup dict) with
      | some ann =>
        match ann.splitOn "," with
        | ["sess", l] => if l == "-" then [] else (l.splitOn ";").filterMap fun x =>
            match x.splitOn "@" with
            | [_, tp, f] => some (tp, f.toNat!)
            | _ => none
        | _ => []
      | none => []
    let pTok := loaded.flatMap fun (tp, pt0, _, _) =>
      let pt : Part := { pt0 with lso := sessionLso ((sess.filter (fun (x : String × Nat) => x.1 == tp)).map (fun x => x.2)) pt0.lso }
      let bs := pt.batches.map (·.1)
      let rc := bs.filter (fun b => b.first < pt.lso)
      let ab := match rc.getLast? with
        | some l => ((pt.aborted.dropWhile (fun a => a.last < pt.start)).filter (fun a => a.first < l.last + 1)).map fun a => s!"{a.pid}@{a.first}"
        | none => []
      [s!"p:{tp}:0:{pt.hwm}:{pt.lso}:{pt.start}", s!"u:{tp}:{joinOr (bs.map batchTok) "+"}",
       s!"a:{tp}:{joinOr ab "+"}", s!"c:{tp}:{joinOr (rc.map batchTok) "+"}"]
    let (gEntries, gJunk) := match content (dataDir ++ "/groups.log") with
      | some raw =>
        let (es, n) := readEntries crc32c raw
        (es.map (fun e => parseGEntry (lookup dict (frame crc32c e))), decide (n < raw.length))
      | none => ([], false)
    let commits := replayCommits gEntries
    let gTok := ["g0", "g1"].flatMap fun g =>
      sortStr ((commits.filter (fun c => c.1.1 == g && c.2 ≥ 0)).map fun c => s!"g:{g}:{c.1.2}:{c.2}")
    let logTr := ["pids.log", "groups.log"].flatMap fun n =>
      match (content (dataDir ++ "/" ++ n)).bind (stateLogTrunc crc32c) with
      | some k => [s!"T:{dataDir}/{n}:{k}"]
      | none => []
    ⟨["ok"] ++ files ++ tTok ++ pTok ++ gTok, true, loaded.any (·.2.2.1), gJunk,
     sortStr (loaded.flatMap (·.2.2.2) ++ logTr)⟩

/-! ### Spec (on the implementation's tokens) -/

structure Req where
  gen : Nat
  kind : String
  args : List String
  acked : Bool
  res : List String
deriving Inhabited, Repr

/-- requests issued before position `k` of a trace, with their acknowledgement if it also precedes `k`. -/
def reqsOf (gen : Nat) (items : List Item) (k : Nat) : List Req :=
  let pre := (items.take k).filter (fun i => match i.op with | .mark => true | _ => false)
  pre.filterMap fun i =>
    match splitColon i.text with
    | "Q" :: id :: kind :: args =>
      let ack := pre.findSome? fun j => match splitColon j.text with
        | "A" :: id' :: res => if id' == id then some res else none
        | _ => none
      some ⟨gen, kind, args, ack.isSome, ack.getD []⟩
    | _ => none

structure BTok where
  first : Nat
  nrec : Nat
  pid : String
  fl : String
  crc : String
deriving Inhabited, Repr

def parseBatches (s : String) : Option (List BTok) :=
  if s == "-" then some [] else
  (s.splitOn "+").mapM fun b =>
    match b.splitOn "." with
    | [f, n, pid, _, _, fl, crc] => do some ⟨← f.toNat?, ← n.toNat?, pid, fl, crc⟩
    | _ => none

/-- the consumer's read_committed filter: aborted transactions are (pid, firstOffset); a transactional data batch
of a pid is dropped from the first offset of an aborted transaction until that pid's next abort marker. -/
def rcVisible (bs : List BTok) (aborted : List (String × Nat)) : List BTok :=
  let step := fun (st : List String × List (String × Nat) × List BTok) (b : BTok) =>
    let (active, pending, out) := st
    let (now, later) := pending.partition (fun a => a.2 ≤ b.first + b.nrec - 1)
    let active := active ++ now.map (·.1)
    if b.fl == "A" || b.fl == "C" || b.fl == "X" then
      (if b.fl == "C" then active else active.filter (· != b.pid), later, out)
    else if b.fl.startsWith "t" && active.contains b.pid then (active, later, out)
    else (active, later, out ++ [b])
  (bs.foldl step ([], aborted, [])).2.2

def tokVal (toks : List String) (pre : String) : Option String :=
  (toks.find? (·.startsWith pre)).map fun t => (t.drop pre.length).toString

/-- Spec of the property on a recovered state. `reqs`: requests issued before the crash points (all generations,
in order). Returns the first violated clause. -/
def specCheck (toks : List String) (reqs : List Req) (crashed : List Nat := []) : Option String := Id.run do
  if toks.head? != some "ok" then return some "restart-failed"
  let topics := toks.filterMap fun t => match splitColon t with | ["t", n, c] => some (n, c.toNat!) | _ => none
  -- topics: acknowledged creations exist, nothing unknown exists
  for r in reqs do
    -- (CP = CreatePartitions: counts only grow, so an acknowledged creation / growth to c leaves at least c partitions)
    if (r.kind == "CT" || r.kind == "CP") && r.acked && r.res == ["0"] then
      match r.args with
      | [n, c] => if !topics.any (fun t => t.1 == n && t.2 ≥ c.toNat!) then return some "acked-topic-lost"
      | _ => pure ()
  for (n, _) in topics do
    if n != "t0" && !(reqs.any fun r => r.kind == "CT" && r.args.head? == some n) then return some "unknown-topic"
  let prods := reqs.filter (·.kind == "P")
  let parts := topics.flatMap fun (n, c) => (List.range c).map fun p => s!"{n}-{p}"
  for tp in parts do
    let some pv := tokVal toks s!"p:{tp}:" | return some "partition-unreadable"
    let some us := (tokVal toks s!"u:{tp}:").bind parseBatches | return some "log-unreadable"
    let some cs := (tokVal toks s!"c:{tp}:").bind parseBatches | return some "log-unreadable"
    let ab := match tokVal toks s!"a:{tp}:" with
      | some s => if s == "-" then [] else (s.splitOn "+").filterMap fun x => match x.splitOn "@" with
          | [p, f] => some (p, f.toNat!)
          | _ => none
      | none => []
    let (hwm, lso, start) := match pv.splitOn ":" with
      | [e, h, l, s] => if e == "0" then (h.toNat!, l.toNat!, s.toNat!) else (0, 0, 1)
      | _ => (0, 0, 1)
    -- offsets contiguous, bounds consistent
    let mut next := start
    for b in us do
      if b.first != next || b.nrec == 0 || b.fl.endsWith "!" then return some "offsets-not-contiguous"
      next := b.first + b.nrec
    if next != hwm || lso > hwm then return some "offsets-not-contiguous"
    if cs.map (·.first) != (us.filter (·.first < lso)).map (·.first) then return some "read-committed-log-differs"
    -- every visible batch was issued (no partial / foreign batch); failed produces are not visible
    for b in us do
      if b.fl == "d" || b.fl == "t" then
        if !(prods.any fun r => r.args.head? == some tp && r.args.getLast? == some b.crc && (!r.acked || r.res.head? == some "0")) then
          return some "unknown-batch-visible"
    -- acknowledged produces are present at their offset
    let vis := rcVisible cs ab
    for r in prods do
      if r.args.head? == some tp && r.acked && r.res.head? == some "0" then
        let off := (r.res.getD 1 "").toNat!
        let crc := r.args.getLast?.getD ""
        if !(us.any fun b => b.first == off && b.crc == crc) then return some "acked-produce-lost"
    -- an acknowledged offset is assigned once
    let acked := prods.filterMap fun r =>
      if r.args.head? == some tp && r.acked && r.res.head? == some "0" then some ((r.res.getD 1 "").toNat!, (r.args.getD 5 "1").toNat!) else none
    for (x, i) in acked.zipIdx do
      for y in acked.drop (i + 1) do
        if x.1 < y.1 + y.2 && y.1 < x.1 + x.2 then return some "offset-assigned-twice"
    -- read_committed view against the transactions' outcomes. A transaction that is still open — no EndTxn, no crash
    -- of its own or any later generation (a clean Close carries it over), its producer not re-initialised — legitimately
    -- holds the last stable offset at its first offset.
    let openFirsts := reqs.zipIdx.filterMap fun (r, j) =>
      let pid := r.args.getD 2 ""
      if r.kind == "P" && r.args.head? == some tp && r.args.getD 1 "" == "t" && r.acked && r.res.head? == some "0"
         && !(crashed.any (· ≥ r.gen))
         && !((reqs.drop (j + 1)).any fun e => (e.gen == r.gen && e.kind == "E" && e.args.head? == some pid) ||
                                              (e.kind == "IP" && e.res.getD 1 "" == pid)) then
        (r.res.getD 1 "").toNat?
      else none
    let held := fun (off : Nat) => openFirsts.any (· ≤ off)
    if !(openFirsts.isEmpty) && !(openFirsts.any (· == lso)) && lso != hwm then return some ("lso-not-at-open-transaction/-/" ++ tp)
    let mut i := 0
    for r in reqs do
      i := i + 1
      if r.kind == "P" && r.args.head? == some tp && (!r.acked || r.res.head? == some "0") then
        let crc := r.args.getLast?.getD ""
        if us.any (·.crc == crc) then
          let visible := vis.any (·.crc == crc)
          let kind := r.args.getD 1 ""
          if kind != "t" then
            if r.acked && !visible && !held ((r.res.getD 1 "").toNat!) then return some ("acked-produce-hidden-from-read-committed/-/" ++ tp)
          else
            let pid := r.args.getD 2 ""
            -- the transaction's end: the next EndTxn of this pid in the same generation
            let later := (reqs.drop i).filter fun e => e.gen == r.gen && e.kind == "E" && e.args.head? == some pid
            match later.head? with
            | some e =>
              let commit := e.args.getD 1 "" == "1"
              if commit && e.acked && e.res == ["0"] && r.acked && !visible && !held ((r.res.getD 1 "").toNat!) then return some ("committed-txn-hidden/" ++ pid ++ "/" ++ tp)
              if !commit && visible then return some ("aborted-txn-visible/" ++ pid)
              if commit && e.acked && e.res != ["0"] && visible then return some ("uncommitted-txn-visible/" ++ pid)
            | none => if visible then return some ("uncommitted-txn-visible/" ++ pid)
  -- committed offsets: the last acknowledged commit per key, or a later issued one
  let commits := reqs.filter (·.kind == "O")
  let keys := (commits.map fun r => (r.args.getD 0 "", r.args.getD 1 "")).eraseDups
  for (g, tp) in keys do
    let mine := commits.filter fun r => r.args.getD 0 "" == g && r.args.getD 1 "" == tp
    let lastAck := (mine.zipIdx.filter fun (r, _) => r.acked && r.res == ["0"]).getLast?
    match lastAck with
    | some (_, j) =>
      let allowed := (mine.drop j).map fun r => r.args.getD 2 ""
      let got := tokVal toks s!"g:{g}:{tp}:"
      match got with
      | some v => if !allowed.contains v then return some "acked-commit-lost"
      | none => return some "acked-commit-lost"
    | none => pure ()
  return none

/-! ### driver state -/

structure St where
  base : FS := []                 -- image (before recovery) the live instance started on
  trace : List Item := []         -- operations since that start, as last printed
  dict : List (Bytes × String) := []
  past : List Req := []           -- requests of the finished generations (issued before their stop)
  gen : Nat := 1
  crashed : List Nat := []        -- generations that ended in a crash
  skew : Bool := false
  junk : Bool := false
  truncs : List String := []      -- truncations the model's start-up performs on `base`

def clauseOf (toks : List String) (reqs : List Req) (crashed : List Nat) (extra : Option String := none) : String :=
  ((specCheck toks reqs crashed).orElse (fun _ => extra)).getD "-"

/-- Under SyncWrites a request is acknowledged only when everything it wrote is durable: at every successful `A:` mark
no file has an unsynced tail. (This is the hypothesis "acknowledged ⇒ its sync completed" of the theorems, checked on
the real trace.) Returns the number of acknowledgements checked, or `none` on a violation. -/
def ackDiscipline (base : FS) (items : List Item) : Option Nat :=
  let rec go (fs : FS) (l : List Item) (n : Nat) : Option Nat :=
    match l with
    | [] => some n
    | i :: r =>
      match i.op with
      | .mark =>
        match splitColon i.text with
        | "A" :: _ :: "0" :: _ => if fs.any (fun x => !x.2.tail.isEmpty) then none else go fs r (n + 1)
        | _ => go fs r n
      | op => go (fs.apply op) r n
  go base items 0

def traceVerdict (base : FS) (items : List Item) : String :=
  match ackDiscipline base items with
  | some n => s!"1 | {boolStr (n > 0)}"
  | none => "0:ack-before-sync | 1"

def verdictOf (toks : List String) (reqs : List Req) (crashed : List Nat) (curGen : Nat) (skew junk : Bool)
    (extra : Option String := none) : String :=
  match (specCheck toks reqs crashed).orElse (fun _ => extra) with
  | none => "1"
  | some kindPid =>
    let kind := (kindPid.splitOn "/").headD ""
    let pid := (kindPid.splitOn "/").getD 1 ""
    -- producers whose transaction was open (no acknowledged EndTxn in its generation) when that or a later, EARLIER-than-
    -- current generation crashed: recovery aborts such a transaction in memory only, no abort marker reaches the log
    let crashAborted := reqs.zipIdx.any fun (r, j) =>
      r.kind == "P" && r.args.getD 1 "" == "t" && r.args.getD 2 "" == pid &&
      crashed.any (fun g => r.gen ≤ g && g < curGen) &&
      !((reqs.drop (j + 1)).any fun e => e.gen == r.gen && e.kind == "E" && e.acked && e.args.head? == some pid)
    let tp := (kindPid.splitOn "/").getD 2 ""
    -- a transaction left open across a CLEAN Close (kept alive by session_state.json) on this partition, and a later
    -- generation crashed: the snapshot path restores the held LSO but the transaction state is gone
    let carriedOpen := reqs.zipIdx.any fun (r, j) =>
      r.kind == "P" && r.args.getD 1 "" == "t" && r.args.head? == some tp && r.acked && r.res.head? == some "0" &&
      !crashed.contains r.gen && crashed.any (· > r.gen) &&
      !((reqs.drop (j + 1)).any fun e => e.gen == r.gen && e.kind == "E" && e.args.head? == some (r.args.getD 2 ""))
    -- stable keys of the three defects this check found, each only for the clauses it explains. The open one (crash-aborted
    -- transaction without marker) is decided from the requests alone and goes first; the two repaired ones are classes of
    -- crash images (torn append visible in the image / torn state-log tail in the lineage) and are plain violations now.
    if crashAborted && ["uncommitted-txn-visible", "aborted-txn-visible", "committed-txn-hidden"].contains kind then
      "0:crash-aborted-txn-has-no-marker"
    else if carriedOpen && ["acked-produce-hidden-from-read-committed", "committed-txn-hidden", "lso-not-at-open-transaction"].contains kind then
      "0:snapshot-lso-stuck-after-crash"
    else if skew && ["uncommitted-txn-visible", "aborted-txn-visible", "committed-txn-hidden", "acked-produce-hidden-from-read-committed",
                "close-restart-differs", "lso-not-at-open-transaction"].contains kind then "0:index-segment-skew-after-torn-append"
    else if junk && kind == "acked-commit-lost" then "0:state-log-torn-tail-kept"
    else "0:" ++ kind

/-- model tokens followed by the implementation's unmodelled tokens (`d:` `x:`). -/
def withUnmodelled (model : List String) (impl : List String) : String :=
  " ".intercalate (model ++ impl.filter (fun t => t.startsWith "d:" || t.startsWith "x:"))

/-- start-up of the live instance: its truncations (recorded before the first request) must be the ones the model's
start-up performs on the image it started on. -/
def truncsOK (st : St) (tr : List Item) : Option String :=
  let recorded := sortStr ((tr.takeWhile fun i => match i.op with | .mark => !i.text.startsWith "Q:" | _ => true).filterMap fun i =>
    match i.op with
    | .truncate p n => some s!"T:{p}:{n}"
    | _ => none)
  if recorded == st.truncs then none else some s!"T! start-up truncations: model {st.truncs} recorded {recorded}"

def parseK (k : String) (len : Nat) : Nat := if k == "e" then len else k.toNat! % (len + 1)

def step (st : St) (line : String) : St × String :=
  let (op, impl) := splitBar line
  let it := toks impl
  match toks op with
  | "reset" :: _ =>
    match it with
    | "T" :: items =>
      let tr := parseTrace items
      ({ trace := tr, dict := buildDict tr }, s!"* | {traceVerdict [] tr}")
    | _ => ({}, "* | 0:workload-failed | 0")
  | "cont" :: _ =>
    match it with
    | "T" :: items =>
      let tr := parseTrace items
      let mout := (truncsOK st tr).getD "*"
      ({ st with trace := tr, dict := st.dict ++ buildDict tr }, s!"{mout} | {traceVerdict st.base tr}")
    | _ => (st, "* | 0:workload-failed | 0")
  | kind :: k :: tail :: _ =>
    if kind != "peek" && kind != "crash" then (st, "bad-op | - | 0") else
    let ops := st.trace.map (·.op)
    let k' := parseK k ops.length
    let img := applyTail (FS.run st.base (ops.take k')) tail
    let rec_ := recover st.dict img
    match it with
    | "R" :: toks =>
      let reqs := st.past ++ reqsOf st.gen st.trace k'
      let crashed := st.crashed ++ [st.gen]
      let skew := rec_.skew || st.skew
      let junk := rec_.junk || st.junk
      let v := verdictOf toks reqs crashed st.gen skew junk
      let nt := boolStr (k' > 0 || st.gen > 1)
      let st' := if kind == "crash" then
          { st with base := img, trace := [], past := reqs, gen := st.gen + 1, crashed := crashed, skew := skew, junk := junk,
                    truncs := rec_.truncs }
        else st
      (st', s!"R {withUnmodelled rec_.toks toks} | {v} | {nt} | {clauseOf toks reqs crashed}")
    | _ => (st, "* | 0:harness-failed | 0")
  | "close" :: _ =>
    -- `T trace # B before # R after`
    match impl.splitOn " # " with
    | [t, b, r] =>
      let tr := parseTrace ((toks t).drop 1)
      let before := (toks b).drop 1
      let after := (toks r).drop 1
      let dict := st.dict ++ buildDict tr
      let img := applyTail (FS.run st.base (tr.map (·.op))) "K"
      let rec_ := recover dict img
      let reqs := st.past ++ reqsOf st.gen tr tr.length
      -- clean Close + restart: identical protocol-visible state
      let same := before == after.filter (fun x => !x.startsWith "f:" && x != "ok")
      -- told apart: the only difference is the EPOCH DescribeProducers reports for an active producer of a partition
      -- (token d:<tp>:<pid>/<epoch>/<last sequence>/<transaction start>)
      let afterP := after.filter (fun x => !x.startsWith "f:" && x != "ok")
      let onlyB := before.filter (fun x => !afterP.contains x)
      let onlyA := afterP.filter (fun x => !before.contains x)
      let epochOnly := !onlyB.isEmpty && onlyB.length == onlyA.length && (onlyB.zip onlyA).all (fun (x, y) =>
        x.startsWith "d:" && y.startsWith "d:" &&
        match (x.splitOn "/"), (y.splitOn "/") with
        | [a1, _, a3, a4], [b1, _, b3, b4] => a1 == b1 && a3 == b3 && a4 == b4
        | _, _ => false)
      let extra := if same then none else if epochOnly then some "describeproducers-epoch-differs-after-clean-restart" else some "close-restart-differs"
      let skew := rec_.skew || st.skew
      let junk := rec_.junk || st.junk
      let v := verdictOf after reqs st.crashed st.gen skew junk extra
      let tOut := match truncsOK st tr with | some e => e | none => t
      ({ st with base := img, trace := [], dict := dict, past := reqs, gen := st.gen + 1, skew := skew, junk := junk,
                 truncs := rec_.truncs },
       s!"{tOut} # {b} # R {withUnmodelled rec_.toks after} | {v} | 1 | {clauseOf after reqs st.crashed extra}")
    | _ => (st, "* | 0:harness-failed | 0")
  | "probe" :: _ =>
    -- `T trace # R live state`: requests after the last restart and a live read back (not predicted by the model)
    match impl.splitOn " # " with
    | [t, r] =>
      let tr := parseTrace ((toks t).drop 1)
      let live := (toks r).drop 1
      let reqs := st.past ++ reqsOf st.gen tr tr.length
      let v := verdictOf live reqs st.crashed st.gen st.skew st.junk
      let mout := (truncsOK st tr).getD "*"
      let disc := match ackDiscipline st.base tr with | some _ => v | none => "0:ack-before-sync"
      ({ st with trace := tr, dict := st.dict ++ buildDict tr }, s!"{mout} | {disc} | 1 | {clauseOf live reqs st.crashed}")
    | _ => (st, "* | 0:harness-failed | 0")
  | _ => (st, "bad-op | - | 0")

end C33

def main : IO UInt32 := runLoop ({} : C33.St) C33.step
