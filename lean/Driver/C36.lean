import Driver.Common
import FranzVerif.Model.C36
import FranzVerif.Spec.C36
/-! Sub-driver C36. Input lines `op | impl`; output `model | verdict | nontrivial`.
The op grammar is the header comment of harness/cmd/c36/main.go. The model output is the executable
model of pkg/sr (Model.C36); the verdict is the Spec (Spec.C36) evaluated on the implementation's output.

Since /repo a468db8 `DecodeIndex` caps its allocation by the remaining input, so every count is compared (no
uncompared band). The harness still runs the ops in a child with a 4 GiB address space; if a panic, a kill (`panic`) or
a deadline overrun (`hang`) ever shows up for `decidx` again it gets the stable key of the repaired defect when
`maxLength ≤ 0`, and `decodeindex-panic` otherwise.

Verdict keys: `decodeindex-panic-nonpositive-maxlength` (DecodeIndex panics/aborts with maxLength ≤ 0),
`decodeindex-panic`, `decodeindex-wrong`, `decodeid`, `header-encode`, `header-roundtrip`, `serde-encode`,
`serde-decode`, `serde-decode-panic`, `serde-roundtrip`. -/
open Driver Model.C36

structure St where
  reg : Reg := {}
  hist : List RegOp := []

def parseIdx? (s : String) : Option (List Int) :=
  if s = "-" then some [] else (s.splitOn ",").mapM (·.toInt?)

def idxStr (l : List Int) : String :=
  if l.isEmpty then "-" else ",".intercalate (l.map toString)

def errStr : Err → String
  | .eof => "eof" | .unexpectedEOF => "unexpected-eof" | .overflow => "overflow"
  | .badHeader => "bad-header" | .notRegistered => "not-registered"

def parseErr? : String → Option Err
  | "eof" => some .eof | "unexpected-eof" => some .unexpectedEOF | "overflow" => some .overflow
  | "bad-header" => some .badHeader | "not-registered" => some .notRegistered | _ => none

def outStr {α} (f : α → String) : Out α → String
  | .ok a => "ok " ++ f a
  | .err e => "err " ++ errStr e
  | .panic => "panic"

/-- parse `ok …` / `err kind` / `panic` with a parser for the ok tokens -/
def parseOut? {α} (f : List String → Option α) : List String → Option (Out α)
  | ["panic"] => some .panic
  | ["err", k] => (parseErr? k).map .err
  | "ok" :: rest => (f rest).map .ok
  | _ => none

def pIdxRest : List String → Option (List Int × Bytes)
  | [i, r] => do some ((← parseIdx? i), (← parseHex? r))
  | _ => none

def pIdRest : List String → Option (Int × Bytes)
  | [i, r] => do some ((← i.toInt?), (← parseHex? r))
  | _ => none

def pIdIdxRest : List String → Option (Int × List Int × Bytes)
  | [i, x, r] => do some ((← i.toInt?), (← parseIdx? x), (← parseHex? r))
  | _ => none

def pTagTyRest : List String → Option (Nat × Nat × Bytes)
  | [t, y, r] => do some ((← t.toNat?), (← y.toNat?), (← parseHex? r))
  | _ => none

def decStr (o : Out (Data × Bytes)) : String :=
  outStr (fun (p : Data × Bytes) => s!"{p.1.tag} {p.1.ty} {toHex p.2}") o

def validId (id : Int) : Bool := decide (0 ≤ id ∧ id < 4294967296)

def us (s : String) : String := s.replace " " "_"

/-- model of the `hrt` op of the harness -/
def hrtModel (id : Int) (ix : List Int) (pay : Bytes) (m : Int) : Out (Int × List Int × Bytes) :=
  match decodeID (appendEncode [] id ix ++ pay) with
  | .err e => .err e
  | .panic => .panic
  | .ok (id', rest) =>
    if ix.isEmpty then .ok (id', [], rest) else
    match decodeIndex rest m with
    | .err e => .err e
    | .panic => .panic
    | .ok (ix', rest') => .ok (id', ix', rest')

def step (st : St) (line : String) : St × String :=
  let (op, impl) := splitBar line
  let it := toks impl
  let bad := (st, "bad-op | - | 0")
  match toks op with
  | ["reset"] => ({}, "ok | - | 0")
  | ["enc", pre, id, ix] =>
    match parseHex? pre, id.toInt?, parseIdx? ix with
    | some pre, some id, some ix =>
      let m := appendEncode pre id ix
      let v := if validId id then
          (match parseHex? impl with
           | some b => if b == pre ++ Spec.C36.wireHeader id ix then "1" else "0:header-encode"
           | none => "0:header-encode")
        else "-"
      (st, s!"{toHex m} | {v} | 1")
    | _, _, _ => bad
  | ["decid", b] =>
    match parseHex? b with
    | some b =>
      let m := decodeID b
      let v := match parseOut? pIdRest it with
        | some o => if Spec.C36.decodeIDAllowed b o then "1" else "0:decodeid"
        | none => "0:decodeid"
      (st, s!"{outStr (fun (p : Int × Bytes) => s!"{p.1} {toHex p.2}") m} | {v} | {boolStr (!b.isEmpty)}")
    | none => bad
  | ["decidx", b, mx] =>
    match parseHex? b, mx.toInt? with
    | some b, some mx =>
      let m := decodeIndex b mx
      let ms := outStr (fun (p : List Int × Bytes) => s!"{idxStr p.1} {toHex p.2}") m
      let io := if it == ["hang"] then some Out.panic else parseOut? pIdxRest it
      let v := match io with
        | some o =>
          if Spec.C36.decodeIndexAllowed b mx o then "1"
          else if o == Out.panic then
            (if mx ≤ 0 then "0:decodeindex-panic-nonpositive-maxlength" else "0:decodeindex-panic")
          else "0:decodeindex-wrong"
        | none => "0:decodeindex-wrong"
      (st, s!"{ms} | {v} | {boolStr (!b.isEmpty)}")
    | _, _ => bad
  | ["hrt", id, ix, pay, mx] =>
    match id.toInt?, parseIdx? ix, parseHex? pay, mx.toInt? with
    | some id, some ix, some pay, some mx =>
      let m := hrtModel id ix pay mx
      let v := if !validId id then "-" else
        match parseOut? pIdIdxRest it with
        | some (.ok (id', ix', rest)) =>
          if (ix.isEmpty || mx ≤ 0 || (ix.length : Int) ≤ mx) && id' == id && ix' == ix && rest == pay then "1" else "0:header-roundtrip"
        | some (.err _) => if !ix.isEmpty && mx > 0 && (ix.length : Int) > mx then "1" else "0:header-roundtrip"
        | _ => "0:header-roundtrip"
      (st, s!"{outStr (fun (p : Int × List Int × Bytes) => s!"{p.1} {idxStr p.2.1} {toHex p.2.2}") m} | {v} | 1")
    | _, _, _, _ => bad
  | ["reg", id, ty, tag, ix, enc, dec] =>
    match id.toInt?, ty.toNat?, tag.toNat?, parseIdx? ix with
    | some id, some ty, some tag, some ix =>
      let o : RegOp := { id := id, ty := ty, tag := tag, index := ix, enc := enc != "0", dec := dec != "0" }
      let overrides := (Spec.C36.holder st.hist id ix).isSome
      ({ reg := register st.reg o, hist := st.hist ++ [o] }, s!"ok | - | {boolStr (!ix.isEmpty || overrides)}")
    | _, _, _, _ => bad
  | ["senc", ty, pre, pay] =>
    match ty.toNat?, parseHex? pre, parseHex? pay with
    | some ty, some pre, some pay =>
      let m := encode st.reg pre ty pay
      let okv := st.hist.all Spec.C36.validOp
      let v := if !okv then "-" else
        match parseOut? (fun | [h] => parseHex? h | _ => none) it with
        | some o => if Spec.C36.encodeAllowed st.hist pre ty pay o then "1" else "0:serde-encode"
        | none => "0:serde-encode"
      (st, s!"{outStr toHex m} | {v} | 1")
    | _, _, _ => bad
  | ["sdec", b] =>
    match parseHex? b with
    | some b =>
      let m := decodeFind st.reg b
      let v := match parseOut? pTagTyRest it with
        | some .panic => "0:serde-decode-panic"
        | some o =>
          if Spec.C36.decodeAllowed st.hist b o && (!Spec.C36.decodeMustErr st.hist b || o.isErr) then "1" else "0:serde-decode"
        | none => "0:serde-decode"
      (st, s!"{decStr m} | {v} | {boolStr (!b.isEmpty)}")
    | none => bad
  | ["srt", ty, pay] =>
    match ty.toNat?, parseHex? pay with
    | some ty, some pay =>
      let e := encode st.reg [] ty pay
      let ms := match e with
        | .ok bytes => s!"enc={toHex bytes} dec={us (decStr (decodeFind st.reg bytes))}"
        | .err k => s!"enc=err_{errStr k} dec=-"
        | .panic => "enc=panic dec=-"
      let okv := st.hist.all Spec.C36.validOp
      -- Spec on the implementation's answers
      let v := if !okv then "-" else
        match it with
        | [ie, id] =>
          let ie := ie.drop 4 |>.toString
          let id := (id.drop 4 |>.toString).replace "_" " "
          if ie.startsWith "err_" then
            (if Spec.C36.encodeAllowed st.hist [] ty pay (.err .notRegistered) then "1" else "0:serde-encode")
          else
            match parseHex? ie, parseOut? pTagTyRest (toks id) with
            | some bytes, some o =>
              if !Spec.C36.encodeAllowed st.hist [] ty pay (.ok bytes) then "0:serde-encode"
              else if o == Out.panic then "0:serde-decode-panic"
              else if !(Spec.C36.decodeAllowed st.hist bytes o) then "0:serde-decode"
              else if !Spec.C36.consistent st.hist then "-"   -- an id registered with and without index: executed, outside the Spec
              else if Spec.C36.roundTripAllowed st.hist ty pay o then "1" else "0:serde-roundtrip"
            | _, _ => "0:serde-roundtrip"
        | _ => "0:serde-roundtrip"
      (st, s!"{ms} | {v} | 1")
    | _, _ => bad
  | _ => bad

def main : IO UInt32 := runLoop ({} : St) step
