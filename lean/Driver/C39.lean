import Driver.Common
import FranzVerif.Model.Select
/-! Sub-driver for the `sel` scenarios (C39 consumers consume exactly the partitions they select).

input line:  `sel <seed> <mode> <steps> <cfgsel> [<plan>] | cfg:<mode>[:<plan>] <events>`
events:      Re:i Ex:i St:t Sp:t:p Cr:t:g:n:int:m:x Gr:t:n De:t At:t Ap:t:p Rp:t:p Pu:t D:id:t:g:p:off Dx V:t:g:p:off:id E:t M Q
output line: `* | verdict | nontrivial`   (scheduling decides when records are returned; the verdict carries the check)

The verdict is the first `C39.` rule the monitor `Model.Select` refuses. -/
namespace Driver.C39
open Driver Model.Select

def parseEv (t : String) : Option (Option Ev) :=
  match t.splitOn ":" with
  | ["Re", _] => some none
  | ["Ex", _] => some none
  | ["E", _] => some none
  | ["St", a] => do some (some (.selTopic (← a.toNat?)))
  | ["Sp", a, p] => do some (some (.selPart (← a.toNat?) (← p.toNat?)))
  | ["Cr", a, g, n, i, m, x] => do some (some (.created (← a.toNat?) (← g.toNat?) (← n.toNat?) (i == "1") (m == "1") (x == "1")))
  | ["Gr", a, n] => do some (some (.grown (← a.toNat?) (← n.toNat?)))
  | ["De", a] => do some (some (.deleted (← a.toNat?)))
  | ["At", a] => do some (some (.addTopic (← a.toNat?)))
  | ["Ap", a, p] => do some (some (.addPart (← a.toNat?) (← p.toNat?)))
  | ["Rp", a, p] => do some (some (.removePart (← a.toNat?) (← p.toNat?)))
  | ["Pu", a] => do some (some (.purged (← a.toNat?)))
  | ["D", id, a, g, p, o] => do some (some (.produced (← id.toNat?) (← a.toNat?) (← g.toNat?) (← p.toNat?) (← o.toNat?)))
  | ["Dx"] => some (some .incomplete)
  | ["V", a, g, p, o, id] => do some (some (.returned (← a.toNat?) (← g.toNat?) (← p.toNat?) (← o.toNat?) (← id.toNat?)))
  | ["M"] => some (some .refresh)
  | ["Q"] => some (some .quiesce)
  | _ => none

/-- the configuration and the re-creation plan of the scenario (`y`: the unfair plan, a young topic re-created at once) -/
def parseCfg (t : String) : Option (Cfg × String) :=
  match t.splitOn ":" with
  | ["cfg", "r"] => some ({ regex := true }, "0")
  | ["cfg", "n"] => some ({ regex := false }, "0")
  | ["cfg", "r", pl] => some ({ regex := true }, pl)
  | ["cfg", "n", pl] => some ({ regex := false }, pl)
  | _ => none

def refusals (c : Cfg) : St → List Ev → List (String × St) → List (String × St)
  | _, [], acc => acc.reverse
  | s, e :: es, acc =>
    match check c s e with
    | none => refusals c (apply c s e) es acc
    | some r => refusals c (apply c s e) es ((r, s) :: acc)

/-- A coverage refusal is given a more specific stable key when every uncovered partition is explained by a known
deviation of the code (named mode; `directConsumer.m` uses "topic present with no partitions" for "whole topic"):
  * `C39.whole-topic-demoted-by-add-partition`: the topic is selected as a whole (ConsumeTopics / AddConsumeTopics) and
    AddConsumePartitions pinned a partition of it: `m[topic]` is no longer empty, `findNewAssignments` stops treating the
    topic as a whole, and partitions not yet assigned (created or grown later) are never consumed;
  * `C39.whole-topic-forgotten-after-partial-remove`: RemoveConsumePartitions of some (not all) partitions of a whole
    topic deletes `m[topic]`: the remaining partitions stay, partitions that appear later are never consumed. -/
def refineKnown (c : Cfg) (r : String) (s : St) : String :=
  if c.regex then r else
  let cls := (uncovered c s).map (fun d =>
    if !s.whole.contains d.2.1 then 0
    else if s.pinned.any (·.1 == d.2.1) then 1
    else if s.removed.any (·.1 == d.2.1) then 2 else 0)
  if cls.isEmpty || cls.contains 0 then r
  else if cls.all (· == 1) then "C39.whole-topic-demoted-by-add-partition"
  else "C39.whole-topic-forgotten-after-partial-remove"

def refine (c : Cfg) (plan : String) (r : String) (s : St) : String :=
  if r != "C39.selected-partition-not-consumed" && r != "C39.recreated-topic-never-consumed" then r else
  let r' := refineKnown c r s
  -- the unfair plan `y` (never generated): a topic the client has known for less than the window, or that it never saw
  -- missing, is not purged by the regex consumer; the cursors keep the old topic ID
  if plan == "y" && r' == "C39.recreated-topic-never-consumed" then "C39.young-topic-recreated-at-once-never-consumed" else r'

def handle (impl : String) : String :=
  if impl.startsWith "PANIC" || impl.startsWith "HANG" || impl.startsWith "ERR" then
    s!"* | 0:C39.scenario-{(impl.splitOn ":").head!.toLower} | 1"
  else
  match toks impl with
  | [] => "!empty | - | 0"
  | ct :: ets =>
    match parseCfg ct with
    | none => "!bad-cfg | - | 0"
    | some (c, plan) =>
      let evs := ets.map parseEv
      if evs.any (·.isNone) then "!bad-event | - | 0" else
      let es := (evs.filterMap id).filterMap id
      let rs := (refusals c {} es []).map (fun p => refine c plan p.1 p.2)
      let nRet := (es.filter (fun e => match e with | .returned _ _ _ _ _ => true | _ => false)).length
      let nCall := (es.filter (fun e => match e with | .addTopic _ | .addPart _ _ | .removePart _ _ | .purged _ | .grown _ _ | .deleted _ => true | _ => false)).length
      let nt := boolStr (decide (nRet ≥ 5) && decide (nCall ≥ 3))
      match rs with
      | [] => s!"* | 1 | {nt}"
      | r :: _ => s!"* | 0:{r} | {nt}"

end Driver.C39

def main : IO UInt32 := Driver.runLoop () (fun _ line => ((), Driver.C39.handle (Driver.splitBar line).2))
