import Driver.Common
import FranzVerif.Model.C25IO
/-! Sub-driver C27: histories of cooperative rebalance rounds (groups of lines started by `reset`).

  reset M T | pre # post      starts a history: a group joins with the given ownership claims; pre/post = the real sticky plan before and
                              after AdjustCooperative (one engine run). model: echo pre # `adjust pre`.
                              Spec: `safeHandoff` on post.
  next [id] | pre # post           every member revokes what the last adjusted plan did not give it, owns exactly that plan
                              and rejoins at the next generation (the harness re-encodes real join metadata with the
                              public JoinGroupMetadata). model: echo pre # `adjust pre` for `nextMembers`.
                              Spec: `safeHandoff` and `settled` (nothing withheld, plan valid, nobody loses what it owns).
  change C [id] | pre # post       as `next`, after membership / subscription changes C = `;`-separated
                              drop:id | subs:id:t+t | join:id:t+t ; Spec: `safeHandoff` only (the group is not stable).
  Encodings as in Driver/C25.lean. -/
open Driver Model.C25 Model.C25.IO

structure St27 where
  ms : List Member := []
  topics : List (String × Nat) := []
  lastPre : List Triple := []
  lastPost : List Triple := []
  stableRounds : Nat := 0     -- rounds since the last membership / subscription change

def nextGen (ms : List Member) : Int := (ms.foldl (fun g m => if m.gen > g then m.gen else g) 0) + 1

def applyChange (ms : List Member) (c : String) : List Member :=
  match c.splitOn ":" with
  | ["drop", id] => ms.filter (·.id != id)
  | ["subs", id, s] => ms.map fun m => if m.id == id then { m with topics := splitNE s "+" } else m
  | ["join", id, s] => ms ++ [{ id := id, gen := -1, topics := splitNE s "+" }]
  | _ => ms

def runRound (st : St27) (ms : List Member) (impl : String) (stable : Bool) : St27 × String :=
  let ids := ms.map (·.id)
  let n := cnt st.topics
  match impl.splitOn " # " with
  | [pre, post] =>
    let p := parsePlan pre
    let a := parsePlan post
    let wf := showPlan ids p == pre && showPlan ids a == post
    -- the hypotheses of the safety theorem, checked on the real engine's plan
    let tps := p.map Triple.tp
    let hyp := tps.all (fun tp => tps.count tp == 1) && p.all (fun x => ids.contains x.1)
    let safe := safeHandoff ms a
    let conv := !stable || settled ms n st.lastPost p a
    let key := if !wf then "coop-malformed" else if !hyp then "coop-plan-not-exclusive"
               else if !safe then "coop-unsafe-handoff"
               else if !validPlan (subsOf ms) n p then "coop-round2-plan-invalid"
               else if !(st.lastPost.all fun x => p.contains x) then "coop-sticky-moves-owned-in-round2"
               else "coop-not-settled"
    -- non-trivial: at least two members and at least one ownership claim for AdjustCooperative to weigh
    let nt := ms.length ≥ 2 && ms.any fun m => m.owned.any fun e => !e.2.isEmpty
    ({ st with ms := ms, lastPre := p, lastPost := a, stableRounds := if stable then st.stableRounds + 1 else 1 },
     s!"{pre} # {showPlan ids (adjust ms p)} | {verdict (wf && hyp && safe && conv) key} | {boolStr nt}")
  | _ => (st, "bad-impl | 0:coop-malformed | 0")

def step27 (st : St27) (line : String) : St27 × String :=
  let (op, impl) := splitBar line
  match toks op with
  | ["reset", m, t] =>
    let ms := (dedupMembers (parseMembers m)).map fun x => { x with topics := dedup x.topics }
    runRound { ms := ms, topics := (parseTopics t).1 } ms impl false
  | "next" :: _ =>
    runRound st (nextMembers st.ms st.lastPost (nextGen st.ms)) impl true
  | "change" :: c :: _ =>
    let ms := (splitNE c ";").foldl applyChange (nextMembers st.ms st.lastPost (nextGen st.ms))
    runRound st ms impl false
  | _ => (st, "bad-op | - | 0")

def main : IO UInt32 := runLoop ({} : St27) step27
