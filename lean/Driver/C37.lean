import Driver.Common
import FranzVerif.Model.C37
/-! Sub-driver C37. Input lines `op | impl`; output `model | verdict | nontrivial`.

Cases are groups started by a `reset` op; the record lives until the next `reset`.

  reset H <hdrs>                                   fresh record with these headers
  reset E <via> <prov> <tid> <sid> <flags> <ts> <hdrs>
        a record with <hdrs> goes through the producer-side kotel hook (span context tid/sid/flags,
        tracestate <ts> hex) and — via=wire: a real kgo client, kfake, a consuming kgo client;
        via=mem: a header copy — through the consumer-side hook; the record is then the consumed one
  set <k> <v> | get <k> | keys                     carrier operations on the record (hex tokens)

  reset B <codec> <sizes> <skip> <recs>             a partition response of v2 batches holding the records
        <recs> = <hdrs>/<hdrs>/… (batch sizes <sizes> = n or n+m), decoded by the real fetch decoder from
        offset <skip>; the batch is then the decoded records (every record an independent header list)
  reset R <order> <idseed> <samp> <recs>            plain producer -> kfake -> kotel bridge that polls and
        re-produces the polled records in <order> -> kotel sink; the batch is then the sink's records
  bset <i> <k> <v> | bget <i> <k> | bkeys <i>      carrier operations on record i of the batch
  binj <i> <tid> <sid> <flags> <ts>                 the producer-side hook on fetched record i
  bext                                             the consumer-side hook's extraction on every injected record

  <hdrs> = `~` or `k:v,k:v…`, k hex or `.` (empty), v hex, `.` (empty) or `-` (nil)
  batch output:  B=<hdrs>/… K=<keys>/… G=<gets>/… R=<Get of the op's key on record i, else .>
                 reset R adds I=<tp>+<ts>/… (injected per record: an INPUT of the model, copied) and
                 X=<tp>+<ts>/… (extracted per record); bext adds X= (`-` for a record never injected)
  impl / model output:  H=<hdrs> K=<keys> G=<Get of each header's key> R=<Get of the op's key, else .>
                        and for reset E:  X=<extracted traceparent, hex> T=<extracted tracestate, hex>

Verdict = the Spec of Model/C37 (`specSet`, `specRead`, `specKeys`, `specPropagate`) evaluated on the
implementation's observation, with the implementation's previous observation as the "before". -/
open Driver Model.C37

structure St where
  h : List Hdr := []              -- model record
  prev : Option Obs := none       -- implementation's last observation
  b : Batch := []                 -- model batch (fetched records)
  bprev : Option (List Obs) := none   -- implementation's last observation of the batch
  inj : List (Option (Bytes × Bytes × Bool)) := []  -- per record: last injected traceparent, tracestate, Spec applicable

def fmtB (b : Bytes) : String := toHex b

def fmtHdr (x : Hdr) : String :=
  fmtB x.key ++ ":" ++ (match x.val with | none => "-" | some v => fmtB v)

def fmtList (xs : List String) : String := if xs.isEmpty then "~" else ",".intercalate xs

def fmtObs (o : Obs) (withR : Bool) : String :=
  s!"H={fmtList (o.hdrs.map fmtHdr)} K={fmtList (o.keys.map fmtB)} G={fmtList (o.gets.map fmtB)} R={if withR then fmtB o.getK else "."}"

def parseHdr (s : String) : Option Hdr :=
  match s.splitOn ":" with
  | [k, v] =>
    match parseHex? k with
    | none => none
    | some kb => if v = "-" then some ⟨kb, none⟩ else (parseHex? v).map fun vb => ⟨kb, some vb⟩
  | _ => none

def parseList {α : Type} (f : String → Option α) (s : String) : Option (List α) :=
  if s = "~" then some [] else (s.splitOn ",").mapM f

def field (pfx : String) (ts : List String) : Option String :=
  (ts.find? (·.startsWith pfx)).map fun t => (t.drop pfx.length).toString

def parseObs (ts : List String) : Option Obs := do
  let h ← (← field "H=" ts) |> parseList parseHdr
  let k ← (← field "K=" ts) |> parseList parseHex?
  let g ← (← field "G=" ts) |> parseList parseHex?
  let r ← (← field "R=" ts) |> parseHex?
  pure ⟨h, k, g, r⟩

def ascii (s : String) : Bytes := s.toUTF8.toList

def verdictStr (ok : Bool) (key : String) : String := if ok then "1" else "0:" ++ key

def hasKey (h : List Hdr) (k : Bytes) : Bool := h.any (·.key == k)

/-! ### batches -/

def splitSlash (s : String) : List String := s.splitOn "/"

def fmtBatchObs (os : List Obs) (r : Option Bytes) : String :=
  let j (f : Obs → String) := "/".intercalate (os.map f)
  s!"B={j (fun o => fmtList (o.hdrs.map fmtHdr))} K={j (fun o => fmtList (o.keys.map fmtB))} G={j (fun o => fmtList (o.gets.map fmtB))} R={match r with | some x => fmtB x | none => "."}"

def zip3 : List (List Hdr) → List (List Bytes) → List (List Bytes) → Option (List Obs)
  | [], [], [] => some []
  | h :: hs, k :: ks, g :: gs => (zip3 hs ks gs).map (fun r => ⟨h, k, g, []⟩ :: r)
  | _, _, _ => none

def parseBatchObs (ts : List String) : Option (List Obs × Bytes) := do
  let h ← (splitSlash (← field "B=" ts)).mapM (parseList parseHdr)
  let k ← (splitSlash (← field "K=" ts)).mapM (parseList parseHex?)
  let g ← (splitSlash (← field "G=" ts)).mapM (parseList parseHex?)
  let r ← (← field "R=" ts) |> parseHex?
  let os ← zip3 h k g
  pure (os, r)

def parseCtx (s : String) : Option (Bytes × Bytes) :=
  match s.splitOn "+" with
  | [a, b] => do pure (← parseHex? a, ← parseHex? b)
  | _ => none

def fmtCtx (c : Bytes × Bytes) : String := fmtB c.1 ++ "+" ++ fmtB c.2

def parseCtxs (pfx : String) (ts : List String) : Option (List (Option (Bytes × Bytes))) := do
  (splitSlash (← field pfx ts)).mapM fun s => if s = "-" then some none else (parseCtx s).map some

def headerBearing (b : Batch) : Nat := (b.filter (fun h => !h.isEmpty)).length

def setAt {α : Type} (l : List α) (i : Nat) (x : α) : List α := l.set i x

/-- all records unchanged between two batch observations -/
def sameBatch (P N : List Obs) : Bool := N == P

/-- per record: X must equal what was injected, where the Spec applies -/
def propagateAll : List (Option (Bytes × Bytes × Bool)) → List (Option (Bytes × Bytes)) → Bool
  | [], [] => true
  | none :: is, _ :: xs => propagateAll is xs
  | some (_, _, false) :: is, _ :: xs => propagateAll is xs
  | some (tp, ts, true) :: is, some (x, t) :: xs => specPropagate tp ts x t && propagateAll is xs
  | _, _ => false

def forwardAll : List (List Hdr) → List Obs → Bool
  | [], [] => true
  | h :: hs, n :: ns => specForward h n.hdrs && specKeys n && forwardAll hs ns
  | _, _ => false

def batchStep (st : St) (op : List String) (its : List String) : Option (St × String) :=
  let ib := parseBatchObs its
  let nt := boolStr (headerBearing st.b ≥ 2)
  match op with
  | ["reset", "B", _codec, _sizes, skip, recs] =>
    match (splitSlash recs).mapM (parseList parseHdr), skip.toNat? with
    | some all, some sk =>
      let b := all.drop sk
      let m := fmtBatchObs (bobs b) none
      let v := match ib with
        | some (n, _) => verdictStr (n.map Obs.hdrs == b && n.all specKeys) "fetched-headers-differ-from-produced"
        | none => "0:no-observation"
      some ({ st with b := b, bprev := ib.map (·.1), inj := b.map (fun _ => none) }, s!"{m} | {v} | {boolStr (headerBearing b ≥ 2)}")
    | _, _ => none
  | ["reset", "R", _order, _seed, _samp, recs] =>
    match (splitSlash recs).mapM (parseList parseHdr) with
    | some orig =>
      -- what the bridge's producer-side hook injected is read off the implementation (span ids are the SDK's
      -- business); everything downstream of it is predicted
      match parseCtxs "I=" its, parseCtxs "X=" its, ib with
      | some is, some xs, some (n, _) =>
        if is.length != orig.length || is.any (fun c => match c with | some (tp, _) => tp.isEmpty | none => true) then
          some (st, "no-injection | 0:no-injection | 1")
        else
          let ctxs := is.map (fun c => c.getD ([], []))
          let b := List.zipWith (fun h c => inject h c.1 c.2) orig ctxs
          let inj := List.zipWith (fun h c => some (c.1, c.2, c.2 != [] || !hasKey h tracestateKey)) orig ctxs
          let m := fmtBatchObs (bobs b) none ++ " I=" ++ "/".intercalate (ctxs.map fmtCtx) ++ " X=" ++ "/".intercalate (b.map (fun h => fmtCtx (extract h)))
          let v :=
            if !propagateAll inj xs then "0:extracted-context-differs-from-injected"
            else if !forwardAll orig n then "0:application-headers-changed"
            else "1"
          some ({ st with b := b, bprev := some n, inj := inj }, s!"{m} | {v} | 1")
      | _, _, _ => some (st, "no-observation | 0:no-observation | 1")
    | none => none
  | ["bset", i, k, v] =>
    match i.toNat?, parseHex? k, parseHex? v with
    | some i, some kb, some vb =>
      if i ≥ st.b.length then none else
      let b' := bset st.b i kb vb
      let m := fmtBatchObs (bobs b') (some (cget (b'[i]?.getD []) kb))
      let vd := match st.bprev, ib with
        | some p, some (n, r) =>
          if !othersUntouched i p n then "0:set-changed-another-records-headers"
          else verdictStr (specBSet p i kb vb n r) "set"
        | _, _ => "0:no-observation"
      some ({ st with b := b', bprev := ib.map (·.1) }, s!"{m} | {vd} | {nt}")
    | _, _, _ => none
  | ["bget", i, k] =>
    match i.toNat?, parseHex? k with
    | some i, some kb =>
      if i ≥ st.b.length then none else
      let m := fmtBatchObs (bobs st.b) (some (cget (st.b[i]?.getD []) kb))
      let vd := match st.bprev, ib with
        | some p, some (n, r) =>
          if !sameBatch p n then "0:read-changed-headers" else verdictStr (specBRead p i kb n r) "get"
        | _, _ => "0:no-observation"
      some ({ st with bprev := ib.map (·.1) }, s!"{m} | {vd} | {nt}")
    | _, _ => none
  | ["bkeys", i] =>
    match i.toNat? with
    | some i =>
      if i ≥ st.b.length then none else
      let m := fmtBatchObs (bobs st.b) none
      let vd := match st.bprev, ib with
        | some p, some (n, _) =>
          if !sameBatch p n then "0:read-changed-headers" else verdictStr (n.all specKeys) "keys"
        | _, _ => "0:no-observation"
      some ({ st with bprev := ib.map (·.1) }, s!"{m} | {vd} | {nt}")
    | none => none
  | ["binj", i, tid, sid, fl, ts] =>
    match i.toNat?, parseHex? ts with
    | some i, some tsb =>
      if i ≥ st.b.length then none else
      let tp := ascii ("00-" ++ tid ++ "-" ++ sid ++ "-" ++ fl)
      let b' := binj st.b i tp tsb
      let m := fmtBatchObs (bobs b') (some (cget (b'[i]?.getD []) traceparentKey))
      let before := match st.bprev with | some p => (p[i]?.map Obs.hdrs).getD [] | none => st.b[i]?.getD []
      let applicable := tsb != [] || !hasKey before tracestateKey
      let vd := match st.bprev, ib with
        | some p, some (n, r) =>
          if !othersUntouched i p n then "0:set-changed-another-records-headers"
          else verdictStr (specBInj p i tp n r) "inject"
        | _, _ => "0:no-observation"
      some ({ st with b := b', bprev := ib.map (·.1), inj := setAt st.inj i (some (tp, tsb, applicable)) },
        s!"{m} | {vd} | {boolStr (st.b.length ≥ 2)}")
    | _, _ => none
  | ["bext"] =>
    let xs := List.zipWith (fun h c => match c with | some _ => fmtCtx (extract h) | none => "-") st.b st.inj
    let m := fmtBatchObs (bobs st.b) none ++ " X=" ++ "/".intercalate xs
    let vd := match st.bprev, ib, parseCtxs "X=" its with
      | some p, some (n, _), some x =>
        if !sameBatch p n then "0:read-changed-headers"
        else verdictStr (propagateAll st.inj x) "extracted-context-differs-from-injected"
      | _, _, _ => "0:no-observation"
    some ({ st with bprev := ib.map (·.1) }, s!"{m} | {vd} | {boolStr (st.b.length ≥ 2)}")
  | _ => none

def step (st : St) (line : String) : St × String :=
  let (op, impl) := splitBar line
  let its := toks impl
  let iobs := parseObs its
  let bad : St × String := (st, "bad-op | - | 0")
  match batchStep st (toks op) its with
  | some r => r
  | none =>
  match toks op with
  | ["reset", "H", hs] =>
    match parseList parseHdr hs with
    | none => bad
    | some h =>
      let m := fmtObs (obs h []) false
      let v := match iobs with
        | some n => verdictStr (specKeys n && n.hdrs == h) "reset"
        | none => "0:no-observation"
      ({ h := h, prev := iobs }, s!"{m} | {v} | {boolStr (h.length ≥ 2)}")
  | ["reset", "E", _via, _prov, tid, sid, fl, ts, hs] =>
    match parseList parseHdr hs, parseHex? ts with
    | some h, some tsb =>
      let tp := ascii ("00-" ++ tid ++ "-" ++ sid ++ "-" ++ fl)
      let h' := inject h tp tsb
      let (x, t) := extract h'
      let m := fmtObs (obs h' []) false ++ s!" X={fmtB x} T={fmtB t}"
      let applicable := tsb != [] || !hasKey h tracestateKey
      let v := match iobs, (field "X=" its).bind parseHex?, (field "T=" its).bind parseHex? with
        | some n, some xi, some ti =>
          if !applicable then "-"
          else if !specPropagate tp tsb xi ti then "0:propagate"
          else verdictStr (specKeys n) "keys"
        | _, _, _ => "0:no-observation"
      ({ h := h', prev := iobs }, s!"{m} | {v} | 1")
    | _, _ => bad
  | ["set", k, v] =>
    match parseHex? k, parseHex? v with
    | some kb, some vb =>
      let h' := cset st.h kb vb
      let m := fmtObs (obs h' kb) true
      let vd := match st.prev, iobs with
        | some p, some n => verdictStr (specSet p kb vb n) "set"
        | _, _ => "0:no-observation"
      ({ h := h', prev := iobs }, s!"{m} | {vd} | {boolStr (!st.h.isEmpty)}")
    | _, _ => bad
  | ["get", k] =>
    match parseHex? k with
    | some kb =>
      let m := fmtObs (obs st.h kb) true
      let vd := match st.prev, iobs with
        | some p, some n => verdictStr (specRead p kb n) "get"
        | _, _ => "0:no-observation"
      ({ st with prev := iobs }, s!"{m} | {vd} | {boolStr (!st.h.isEmpty)}")
    | none => bad
  | ["keys"] =>
    let m := fmtObs (obs st.h []) false
    let vd := match st.prev, iobs with
      | some p, some n => verdictStr (n.hdrs == p.hdrs && n.gets == p.gets && specKeys n) "keys"
      | _, _ => "0:no-observation"
    ({ st with prev := iobs }, s!"{m} | {vd} | {boolStr (!st.h.isEmpty)}")
  | _ => bad

def main : IO UInt32 := runLoop ({} : St) step
