import Driver.Common
import FranzVerif.Model.C37
/-! Sub-driver C37. Input lines `op | impl`; output `model | verdict | nontrivial`.

Cases are groups started by a `reset` op; the record lives until the next `reset`.

  reset H <hdrs>                                   fresh record with these headers
  reset E <via> <prov> <tid> <sid> <flags> <ts> <hdrs>
        a record with <hdrs> goes through the producer-side kotel hook (span context tid/sid/flags,
        tracestate <ts> hex) and — via=wire: a real kgo client, kfake, a consuming kgo client;
        via=mem: a header copy — through the consumer-side hook; the record is then the consumed one
  set <k> <v> | get <k> | keys                     carrier operations on the record (hex tokens)

  <hdrs> = `~` or `k:v,k:v…`, k hex or `.` (empty), v hex, `.` (empty) or `-` (nil)
  impl / model output:  H=<hdrs> K=<keys> G=<Get of each header's key> R=<Get of the op's key, else .>
                        and for reset E:  X=<extracted traceparent, hex> T=<extracted tracestate, hex>

Verdict = the Spec of Model/C37 (`specSet`, `specRead`, `specKeys`, `specPropagate`) evaluated on the
implementation's observation, with the implementation's previous observation as the "before". -/
open Driver Model.C37

structure St where
  h : List Hdr := []              -- model record
  prev : Option Obs := none       -- implementation's last observation

def fmtB (b : Bytes) : String := toHex b

def fmtHdr (x : Hdr) : String :=
  fmtB x.key ++ ":" ++ (match x.val with | none => "-" | some v => fmtB v)

def fmtList (xs : List String) : String := if xs.isEmpty then "~" else ",".intercalate xs

def fmtObs (o : Obs) (withR : Bool) : String :=
  s!"H={fmtList (o.hdrs.map fmtHdr)} K={fmtList (o.keys.map fmtB)} G={fmtList (o.gets.map fmtB)} R={if withR then fmtB o.getK else "."}"

def parseHdr (s : String) : Option Hdr :=
  match s.splitOn ":" with
  | [k, v] =>
    match parseHex? k with
    | none => none
    | some kb => if v = "-" then some ⟨kb, none⟩ else (parseHex? v).map fun vb => ⟨kb, some vb⟩
  | _ => none

def parseList {α : Type} (f : String → Option α) (s : String) : Option (List α) :=
  if s = "~" then some [] else (s.splitOn ",").mapM f

def field (pfx : String) (ts : List String) : Option String :=
  (ts.find? (·.startsWith pfx)).map fun t => (t.drop pfx.length).toString

def parseObs (ts : List String) : Option Obs := do
  let h ← (← field "H=" ts) |> parseList parseHdr
  let k ← (← field "K=" ts) |> parseList parseHex?
  let g ← (← field "G=" ts) |> parseList parseHex?
  let r ← (← field "R=" ts) |> parseHex?
  pure ⟨h, k, g, r⟩

def ascii (s : String) : Bytes := s.toUTF8.toList

def verdictStr (ok : Bool) (key : String) : String := if ok then "1" else "0:" ++ key

def hasKey (h : List Hdr) (k : Bytes) : Bool := h.any (·.key == k)

def step (st : St) (line : String) : St × String :=
  let (op, impl) := splitBar line
  let its := toks impl
  let iobs := parseObs its
  let bad : St × String := (st, "bad-op | - | 0")
  match toks op with
  | ["reset", "H", hs] =>
    match parseList parseHdr hs with
    | none => bad
    | some h =>
      let m := fmtObs (obs h []) false
      let v := match iobs with
        | some n => verdictStr (specKeys n && n.hdrs == h) "reset"
        | none => "0:no-observation"
      ({ h := h, prev := iobs }, s!"{m} | {v} | {boolStr (h.length ≥ 2)}")
  | ["reset", "E", _via, _prov, tid, sid, fl, ts, hs] =>
    match parseList parseHdr hs, parseHex? ts with
    | some h, some tsb =>
      let tp := ascii ("00-" ++ tid ++ "-" ++ sid ++ "-" ++ fl)
      let h' := inject h tp tsb
      let (x, t) := extract h'
      let m := fmtObs (obs h' []) false ++ s!" X={fmtB x} T={fmtB t}"
      let applicable := tsb != [] || !hasKey h tracestateKey
      let v := match iobs, (field "X=" its).bind parseHex?, (field "T=" its).bind parseHex? with
        | some n, some xi, some ti =>
          if !applicable then "-"
          else if !specPropagate tp tsb xi ti then "0:propagate"
          else verdictStr (specKeys n) "keys"
        | _, _, _ => "0:no-observation"
      ({ h := h', prev := iobs }, s!"{m} | {v} | 1")
    | _, _ => bad
  | ["set", k, v] =>
    match parseHex? k, parseHex? v with
    | some kb, some vb =>
      let h' := cset st.h kb vb
      let m := fmtObs (obs h' kb) true
      let vd := match st.prev, iobs with
        | some p, some n => verdictStr (specSet p kb vb n) "set"
        | _, _ => "0:no-observation"
      ({ h := h', prev := iobs }, s!"{m} | {vd} | {boolStr (!st.h.isEmpty)}")
    | _, _ => bad
  | ["get", k] =>
    match parseHex? k with
    | some kb =>
      let m := fmtObs (obs st.h kb) true
      let vd := match st.prev, iobs with
        | some p, some n => verdictStr (specRead p kb n) "get"
        | _, _ => "0:no-observation"
      ({ st with prev := iobs }, s!"{m} | {vd} | {boolStr (!st.h.isEmpty)}")
    | none => bad
  | ["keys"] =>
    let m := fmtObs (obs st.h []) false
    let vd := match st.prev, iobs with
      | some p, some n => verdictStr (n.hdrs == p.hdrs && n.gets == p.gets && specKeys n) "keys"
      | _, _ => "0:no-observation"
    ({ st with prev := iobs }, s!"{m} | {vd} | {boolStr (!st.h.isEmpty)}")
  | _ => bad

def main : IO UInt32 := runLoop ({} : St) step
