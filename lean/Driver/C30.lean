import Driver.Common
import FranzVerif.Model.C30
import FranzVerif.Spec.C30
/-! Sub-driver C30. Input lines `op | impl`; output `model | verdict | nontrivial`.

  latch <progs> <schedule> | <event log> ; st=<n> blocked=<tids>
  ring <maxLen|n> <progs> <schedule> | <event log> ; cap= head= l= dead= elems= blocked=

The model side executes `Model.C30.LS.stepEv` / `QS.step` / `Ring.*` on the same schedule (thread programs are
turned into the `Choice`/`QAct` of each step); the verdict is `Spec.C30` evaluated on the implementation's log. -/
open Driver Model.C30

def b01 (b : Bool) : String := if b then "1" else "0"

def splitProgs (p : String) : Array (List String) :=
  ((p.splitOn "/").map fun t => if t == "-" || t == "" then [] else t.splitOn ",").toArray

def parseSched (s : String) : List Nat :=
  if s == "-" then [] else s.toList.map fun c => c.toNat - '0'.toNat

def stepLimit : Nat := 20000

/-- nontrivial bookkeeping: threads that acted, context switches away from an unfinished thread -/
structure NT where
  acted : List Nat := []
  last : Option Nat := none
  switches : Nat := 0

def NT.note (n : NT) (i : Nat) (lastUnfinished : Bool) : NT :=
  let acted := if n.acted.contains i then n.acted else i :: n.acted
  let sw := match n.last with
    | some p => if p != i && lastUnfinished then n.switches + 1 else n.switches
    | none => n.switches
  { acted := acted, last := some i, switches := sw }

def NT.nontrivial (n : NT) : Bool := n.acted.length ≥ 2 && n.switches ≥ 1

/-! ### latch -/

structure LThr where
  ops : List String
  script : List Char := []

def latchChoice (l : Loc) (t : LThr) : Option (Choice × LThr) :=
  match l with
  | .idle => match t.ops with
    | [] => none
    | op :: rest => match op.toList with
      | 'B' :: sc => some (.begin, { ops := rest, script := sc })
      | ['b'] => some (.rawBegin, { t with ops := rest })
      | ['f'] => some (.rawFinish false, { t with ops := rest })
      | ['F'] => some (.rawFinish true, { t with ops := rest })
      | ['H'] => some (.rawHard, { t with ops := rest })
      | _ => none
  | .work => match t.script with
    | 'h' :: r => some (.hard, { t with script := r })
    | '1' :: r => some (.work true, { t with script := r })
    | _ :: r => some (.work false, { t with script := r })
    | [] => some (.work false, t)
  | _ => some (.begin, t)

structure LRun where
  s : LS
  ths : Array LThr
  log : Array String := #[]
  nt : NT := {}
  steps : Nat := 0

def evStr (i : Nat) : Ev → Option String
  | .none => none
  | .beginRet b => some s!"{i}.B={b01 b}"
  | .worked => some s!"{i}.W"
  | .finishRet b => some s!"{i}.F={b01 b}"
  | .hard => some s!"{i}.h"
  | .rawBeginRet b => some s!"{i}.b={b01 b}"
  | .rawFinishRet b => some s!"{i}.f={b01 b}"
  | .rawHard => some s!"{i}.H"

def LRun.finished (r : LRun) (i : Nat) : Bool :=
  match r.s.pcs[i]?, r.ths[i]? with
  | some .idle, some t => t.ops.isEmpty
  | some _, some _ => false
  | _, _ => true

def LRun.step (r : LRun) (i : Nat) : Option LRun :=
  match r.s.pcs[i]?, r.ths[i]? with
  | some l, some t =>
    match latchChoice l t with
    | none => none
    | some (c, t') =>
      match r.s.stepEv (i, c) with
      | none => none
      | some (s', ev) =>
        let lastUnf := match r.nt.last with | some p => !r.finished p | none => false
        let log := match evStr i ev with | some x => r.log.push x | none => r.log
        some { s := s', ths := r.ths.set! i t', log := log, nt := r.nt.note i lastUnf, steps := r.steps + 1 }
  | _, _ => none

def runLatch (progs : String) (sched : List Nat) : String × Bool := Id.run do
  let ps := splitProgs progs
  let n := ps.size
  let mut r : LRun := { s := LS.init n, ths := ps.map fun p => { ops := p } }
  for i in sched do
    match r.step i with
    | some r' => r := r'
    | none => pure ()
  let mut progress := true
  for _ in [0:stepLimit] do
    if !progress then break
    progress := false
    for i in [0:n] do
      match r.step i with
      | some r' => r := r'; progress := true
      | none => pure ()
  let st := match r.s.st with | .unstarted => 0 | .working => 1 | .cont => 2
  let bl := (List.range n).filter fun i => !r.finished i
  let bs := if bl.isEmpty then "-" else ".".intercalate (bl.map toString)
  let log := if r.log.isEmpty then "-" else " ".intercalate r.log.toList
  return (s!"{log} ; st={st} blocked={bs}", r.nt.nontrivial)

/-! ### ring -/

structure RThr where
  ops : List String
  k : Nat := 0

structure RRun where
  s : QS
  ths : Array RThr
  log : Array String := #[]
  nt : NT := {}
  dead : List Nat := []     -- threads that panicked

def RRun.finished (r : RRun) (i : Nat) : Bool :=
  r.dead.contains i ||
  match r.s.pcs[i]?, r.ths[i]? with
  | some .idle, some t => t.ops.isEmpty
  | some _, some _ => false
  | _, _ => true

def RRun.enabled (r : RRun) (i : Nat) : Bool :=
  !r.dead.contains i &&
  match r.s.pcs[i]?, r.ths[i]? with
  | some .idle, some t => !t.ops.isEmpty
  | some (.waiting _), some _ => r.s.r.woken.contains i
  | some .drop, some _ => true
  | _, _ => false

def pushLog (i e : Nat) (kind : String) (f d : Bool) : List String :=
  let a := s!"{i}.{kind}({e})={b01 f},{b01 d}"
  if f && !d then [a, s!"{i}.X={e}"] else [a]

def qevLog (i e : Nat) (kind : String) : QEv → List String
  | .pushBlocked => [s!"{i}.~"]
  | .pushRet f d => pushLog i e kind f d
  | .dropRet n m d => if m then [s!"{i}.D={n},{b01 m},{b01 d}", s!"{i}.X={n}"] else [s!"{i}.D={n},{b01 m},{b01 d}"]
  | .died => [s!"{i}.k"]
  | .emptyRet b => [s!"{i}.e={b01 b}"]

def RRun.step (r : RRun) (i : Nat) : Option RRun :=
  if !r.enabled i then none else
  let lastUnf := match r.nt.last with | some p => !r.finished p | none => false
  let nt := r.nt.note i lastUnf
  let panic : RRun := { r with log := r.log.push s!"{i}.panic", dead := i :: r.dead, nt := nt }
  let viaQ (a : QAct) (e : Nat) (kind : String) (ths : Array RThr) : Option RRun :=
    match r.s.step i a with
    | .ok (some (s', ev)) => some { r with s := s', ths := ths, log := r.log ++ (qevLog i e kind ev).toArray, nt := nt }
    | .ok none => none
    | .error _ => some { panic with ths := ths }
  match r.s.pcs[i]?, r.ths[i]? with
  | some .idle, some t =>
    match t.ops with
    | [] => none
    | op :: rest =>
      let e := 100 * (i + 1) + t.k + 1
      if op == "P" || op == "Q" then
        viaQ (.push e (op == "P")) e op (r.ths.set! i { ops := rest, k := t.k + 1 })
      else if op == "q" then
        let ths := r.ths.set! i { ops := rest, k := t.k + 1 }
        match r.s.r.pushFrom i e false with
        | .ok (r', .done f d) => some { r with s := { r.s with r := r' }, ths := ths, log := r.log.push s!"{i}.q({e})={b01 f},{b01 d}", nt := nt }
        | .ok (_, .blocked) => none
        | .error _ => some { panic with ths := ths }
      else if op == "d" then
        let ths := r.ths.set! i { t with ops := rest }
        match r.s.r.dropPeek 0 with
        | .ok (r', n, m, d) => some { r with s := { r.s with r := r' }, ths := ths, log := r.log.push s!"{i}.d={n},{b01 m},{b01 d}", nt := nt }
        | .error _ => some { panic with ths := ths }
      else if op == "k" then viaQ .die 0 op (r.ths.set! i { t with ops := rest })
      else if op == "e" then viaQ .empty 0 op (r.ths.set! i { t with ops := rest })
      else none
  | some (.waiting e), some _ => viaQ .resume e "P" r.ths
  | some .drop, some _ => viaQ (.dropPeek 0) 0 "D" r.ths
  | _, _ => none

def runRing (maxLen : String) (progs : String) (sched : List Nat) : String × Bool := Id.run do
  let ps := splitProgs progs
  let n := ps.size
  let r0 : Ring := match maxLen.toInt? with
    | some m => Ring.initMaxLen m
    | none => {}
  let mut r : RRun := { s := QS.init r0 n, ths := ps.map fun p => { ops := p } }
  for i in sched do
    match r.step i with
    | some r' => r := r'
    | none => pure ()
  let mut progress := true
  for _ in [0:stepLimit] do
    if !progress then break
    progress := false
    for i in [0:n] do
      match r.step i with
      | some r' => r := r'; progress := true
      | none => pure ()
  let g := r.s.r
  let es := if g.elems.isEmpty then "-" else ".".intercalate (g.elems.map toString)
  let bl := (List.range n).filter fun i => !r.finished i
  let bs := if bl.isEmpty then "-" else ".".intercalate (bl.map toString)
  let log := if r.log.isEmpty then "-" else " ".intercalate r.log.toList
  return (s!"{log} ; cap={g.elems.length} head={g.head} l={g.l} dead={b01 g.dead} elems={es} blocked={bs}", r.nt.nontrivial)

/-! ### parsing the implementation's log for the Spec -/

def parseB (s : String) : Option Bool := if s == "1" then some true else if s == "0" then some false else none

/-- `<t>.<rest>` -/
def splitTid (tok : String) : Option (Nat × String) :=
  match tok.splitOn "." with
  | t :: rest => t.toNat?.map fun n => (n, ".".intercalate rest)
  | [] => none

def parseLatchEv (tok : String) : Option (Option Spec.C30.LEv) :=   -- some none = raw event
  match splitTid tok with
  | none => none
  | some (t, x) =>
    if x == "W" then some (some (.worked t))
    else if x == "h" then some (some (.hard t))
    else if x == "H" then some none
    else match x.splitOn "=" with
      | ["B", v] => (parseB v).map fun b => some (.beginRet t b)
      | ["F", v] => (parseB v).map fun b => some (.finishRet t b)
      | ["b", _] => some none
      | ["f", _] => some none
      | _ => none

def parseRingEv (tok : String) : Option Spec.C30.REv :=
  match splitTid tok with
  | none => none
  | some (t, x) =>
    if x == "~" then some (.blocked t)
    else if x == "k" then some (.die t)
    else match x.splitOn "=" with
      | ["X", v] => v.toNat?.map fun e => .handed t e
      | ["e", v] => (parseB v).map fun b => .empty t b
      | ["D", v] => match v.splitOn "," with
        | [n, m, d] => match n.toNat?, parseB m, parseB d with
          | some n, some m, some d => some (.drop t true n m d)
          | _, _, _ => none
        | _ => none
      | ["d", v] => match v.splitOn "," with
        | [n, m, d] => match n.toNat?, parseB m, parseB d with
          | some n, some m, some d => some (.drop t false n m d)
          | _, _, _ => none
        | _ => none
      | [pe, v] =>
        -- P(101) / Q(101) / q(101)
        match pe.splitOn "(" with
        | [kind, er] =>
          match (er.dropEnd 1).toString.toNat?, v.splitOn "," with
          | some e, [f, d] => match parseB f, parseB d with
            | some f, some d =>
              if kind == "P" then some (.push t e true true f d)
              else if kind == "Q" then some (.push t e false true f d)
              else if kind == "q" then some (.push t e false false f d)
              else none
            | _, _ => none
          | _, _ => none
        | _ => none
      | _ => none

def field (fs : List String) (name : String) : Option String :=
  (fs.find? fun f => f.startsWith (name ++ "=")).map fun f => (f.drop (name.length + 1)).toString

def parseBlocked (tail : String) : List Nat :=
  match field (toks tail) "blocked" with
  | some "-" => []
  | some x => (x.splitOn ".").filterMap String.toNat?
  | none => []

def step (_ : Unit) (line : String) : Unit × String :=
  let (op, impl) := splitBar line
  let (ilog, itail) := match impl.splitOn " ; " with
    | [a, b] => (a, b)
    | _ => (impl, "")
  let bad := impl.contains "panic" || impl.endsWith "hang" || itail == ""
  match toks op with
  | ["latch", progs, sch] =>
    let (mout, nt) := runLatch progs (parseSched sch)
    let evs := (if ilog == "-" then [] else toks ilog).map parseLatchEv
    let verdict :=
      if bad then "0:latch-panic-or-hang"
      else if evs.any (·.isNone) then "0:latch-unparsable"
      else if evs.any (· == some none) then "-"
      else match Spec.C30.latchSpec (evs.filterMap fun e => e.join) with
        | none => if parseBlocked itail == [] then "1" else "0:latch-blocked"
        | some k => "0:" ++ k
    ((), s!"{mout} | {verdict} | {b01 nt}")
  | ["ring", m, progs, sch] =>
    let (mout, nt) := runRing m progs (parseSched sch)
    let evs := (if ilog == "-" then [] else toks ilog).map parseRingEv
    let pure := !(progs.contains 'q' || progs.contains 'd')
    let maxLen : Int := match m.toInt? with | some v => v | none => 0
    let verdict :=
      if bad then "0:ring-panic-or-hang"
      else if evs.any (·.isNone) then "0:ring-unparsable"
      else match Spec.C30.ringSpec maxLen pure (evs.filterMap id) (parseBlocked itail) with
        | none => "1"
        | some k => "0:" ++ k
    ((), s!"{mout} | {verdict} | {b01 nt}")
  | "meta" :: _ => ((), "ok | - | 0")
  | _ => ((), "bad-op | - | 0")

def main : IO UInt32 := runLoop () step
