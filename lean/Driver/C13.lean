import Driver.Common
import FranzVerif.Model.Close
/-! Sub-driver C13 (`cls` scenarios). A scenario outcome PANIC "blocked goroutines remain" becomes the
`leaked` event after the recorded tail; HANG means Close (or something after it) never finished, unless the
recorded tail shows that the scenario had reached its goroutine count after Close and found some (a leftover
goroutine that is not durably blocked keeps the bubble alive: that is a leak, not a Close that hangs). -/
open Driver Model.Close

def parseEv (t : String) : Option (Option Ev) :=
  match t.splitOn ":" with
  | ["P", id] => do some (some (.produce (← id.toNat?)))
  | ["R", id, e] => do some (some (.promise (← id.toNat?) (e == "0")))
  | ["Cs"] => some (some .closeStart)
  | ["Ce", ms] => do some (some (.closeEnd (← ms.toNat?)))
  | ["Pc", r] => some (some (.pollAfterClose (r == "closed")))
  | ["Q"] => some (some .quiesce)
  | "L" :: n :: _ => do some (some (.leftover (← n.toNat?)))   -- L:n:<the goroutines, for the reader>
  | "S" :: _ => some none                                       -- a session stop done by the scenario; not judged
  | _ => none

def refusals (c : Cfg) : St → List Ev → List String → List String
  | _, [], acc => acc.reverse
  | s, e :: es, acc =>
    match check c s e with
    | none => refusals c (apply c s e) es acc
    | some r => refusals c (apply c s e) es (r :: acc)

def cfg : Cfg := { boundMs := 60000 }

def handle (line : String) : String :=
  let (_, impl) := splitBar line
  let tailLeft := (toks impl).any (fun t => match parseEv t with | some (some (.leftover n)) => n != 0 | _ => false)
  if impl.startsWith "PANIC" then
    if tailLeft || (impl.splitOn "blocked_goroutines_remain").length > 1 then "* | 0:C13.goroutines-remain-after-close | 1"
    else "* | 0:C13.scenario-panic | 1"
  else if impl.startsWith "HANG" then
    if tailLeft then "* | 0:C13.goroutines-remain-after-close | 1" else "* | 0:C13.close-never-returned | 1"
  else if impl.startsWith "ERR" then "* | 0:C13.scenario-err | 1"
  else
  match toks impl with
  | [] => "!empty | - | 0"
  | _cfg :: ets =>
    let evs := ets.map parseEv
    if evs.any (·.isNone) then "!bad-event | - | 0" else
    let es := (evs.filterMap id).filterMap id
    let rs := refusals cfg {} es []
    let nProd := (es.filter (fun e => match e with | .produce _ => true | _ => false)).length
    let pendingAtClose :=
      let before := es.takeWhile (fun e => e != .closeStart)
      let p := (before.filter (fun e => match e with | .produce _ => true | _ => false)).length
      let r := (before.filter (fun e => match e with | .promise _ _ => true | _ => false)).length
      decide (p > r)
    let nt := boolStr (pendingAtClose || decide (nProd == 0))
    match rs with
    | [] => s!"* | 1 | {nt}"
    | r :: _ => s!"* | 0:{r} | {nt}"

def main : IO UInt32 := runLoop () (fun _ line => ((), handle line))
