import Driver.Common
import FranzVerif.Model.C28
import FranzVerif.Spec.C28
/-! Sub-driver C28. Input lines `op | impl`; output `model | verdict | nontrivial` (see harness/cmd/c28).

The model column is `Model.C28` run on the op (exact pick when the random source is injected, trace
acceptance `impl pick if possible else not-accepted` otherwise); the verdict is `Spec.C28` evaluated on
the implementation's output. -/
open Driver Model.C28 Spec.C28

structure St where
  kind : Option PKind := none
  ps : PState := .rr {}
  real : Bool := false
  adaptive : Bool := false
  keyed : Bool := false
  rule : KeyRule := .consistentOnly
  earlier : List Obs := []
  /-- basic consistent partitioners: every record must be consistent; `manual`: ManualPartitioner -/
  mustAll : Bool := false
  manual : Bool := false
  /-- `bc`: the whole record is hashed, a nil key as the empty one -/
  nilAsEmpty : Bool := false
  /-- partitions of the crafted topic that already hold an open batch (client groups) -/
  openBatch : List Nat := []
  selEarlier : List SelObs := []

def parseKey (s : String) : Option (Option (List UInt8)) :=
  if s = "-" then some none else (parseHex? s).map some

def parseCsvInt (s : String) : List Int :=
  if s = "_" then [] else (s.splitOn ",").filterMap (·.toInt?)

def parseHdrs (s : String) : List (Nat × Nat) :=
  if s = "_" then [] else
  (s.splitOn ",").filterMap fun kv =>
    match kv.splitOn ":" with
    | [a, b] => match a.toNat?, b.toNat? with | some x, some y => some (x, y) | _, _ => none
    | _ => none

def hashOf (hasher : String) (key : List UInt8) : BitVec 32 :=
  if hasher = "d" then murmur2 key else fnv32a key

def hasherFn (hasher : String) : Hasher := fun key n =>
  match hasher with
  | "d" => kafkaHasher (murmur2 key) n
  | "kf" => kafkaHasher (fnv32a key) n
  | "sf" => saramaHasher (fnv32a key) n
  | _ => saramaCompatHasher (fnv32a key) n

def ruleOf (hasher : String) : KeyRule :=
  match hasher with
  | "d" => .kafkaDefault
  | "cf" => .saramaFnv
  | "sf" => .unsignedFnv
  | _ => .consistentOnly

def optStr : Option Int → String
  | some p => toString p
  | none => "panic"

def verdictStr (ok : Bool) (key : String) : String := if ok then "1" else "0:" ++ key

def parseCsvNat (s : String) : List Nat :=
  if s = "_" then [] else (s.splitOn ",").filterMap (·.toNat?)

/-- the key the Spec attributes to a record of this group (`none`: not mapped by key). -/
def St.okey (st : St) (key : Option (List UInt8)) : Option (List UInt8) :=
  if st.nilAsEmpty then some (key.getD []) else if st.keyed then key else none

def selStr : Sel → String
  | .failLoadErr => "err:load"
  | .failNoUsable => "err:nousable"
  | .failInvalid p l => s!"err:invalid:{p}:{l}"
  | .panic => "panic"
  | .placed _ part _ => s!"part={part.num}"

/-- implementation output of a `sel` / `e2e` op: `some (some p)` placed on p, `some none` = failed with `kind`. -/
def parsePlaced (impl : String) : Option Nat :=
  if impl.startsWith "part=" then (impl.drop 5).toString.toNat? else none

/-- Spec verdict of one record produced through a client. -/
def selVerdict (st : St) (key : Option (List UInt8)) (rpart : Int) (nAll : Nat) (writable : List Nat)
    (fatal : Bool) (impl : String) : String × Option SelObs :=
  match parsePlaced impl with
  | some p =>
    if fatal then ("0:placed-despite-load-error", none)
    else if st.manual then (verdictStr (manualSelOk nAll rpart (some (p : Int))) "manual-partition", none)
    else
      let o : SelObs := ⟨st.okey key, nAll, writable.map (fun (w : Nat) => (w : Int)), p⟩
      -- only observations that satisfy the Spec become the reference for later records of the group
      if selOk st.rule st.selEarlier o then ("1", if o.key.isSome then some o else none)
      else ("0:" ++ selFailKey st.rule st.selEarlier o, none)
  | none =>
    if impl = "err:load" then (verdictStr fatal "unexpected-failure", none)
    else if impl.startsWith "err:invalid:" then
      (verdictStr (st.manual && !fatal && manualSelOk nAll rpart none) "invalid-choice", none)
    else ("0:unexpected-failure", none)

def step (st : St) (line : String) : St × String :=
  let (op, impl) := splitBar line
  match toks op with
  | ["mm", k] =>
    match parseKey k with
    | some key =>
      let bytes := key.getD []
      let m := (murmur2 bytes).toNat
      let v := match impl.toNat? with | some r => verdictStr (r == murmur2U bytes) "murmur2" | none => "0:murmur2"
      (st, s!"{m} | {v} | {boolStr (bytes.length ≥ 1)}")
    | none => (st, "bad-op | - | 0")
  | ["hk", hs, k, n] =>
    match parseKey k, n.toInt? with
    | some key, some n =>
      let bytes := key.getD []
      let m := hasherFn hs bytes n
      let want : Int := match hs with
        | "d" => kafkaPartition bytes n
        | "kf" => kafkaOfHash (fnv1a32 bytes) n
        | "sf" => unsignedPartition (fnv1a32 bytes) n
        | _ => saramaPartition (fnv1a32 bytes) n
      let v := match impl.toInt? with
        | some r => verdictStr (r == want && inRange n r) ("hasher-" ++ hs)
        | none => "0:hasher-panic"
      (st, s!"{optStr m} | {v} | {boolStr (n ≥ 2)}")
    | _, _ => (st, "bad-op | - | 0")
  | ["hr", kd, h, n] =>
    match h.toNat?, n.toInt? with
    | some h, some n =>
      let hv := BitVec.ofNat 32 h
      let m := match kd with | "k" => kafkaHasher hv n | "s" => saramaHasher hv n | _ => saramaCompatHasher hv n
      let want : Int := match kd with | "k" => kafkaOfHash h n | "s" => unsignedPartition h n | _ => saramaPartition h n
      let v := match impl.toInt? with
        | some r => verdictStr (r == want && inRange n r) ("hasher-" ++ kd)
        | none => "0:hasher-panic"
      (st, s!"{optStr m} | {v} | {boolStr (n ≥ 2)}")
    | _, _ => (st, "bad-op | - | 0")
  | "reset" :: pt :: mode :: hs :: rest =>
    let real := mode == "real" || mode == "creal" || mode == "e2e"
    let mk (k : PKind) (adaptive keyed : Bool) : St × String :=
      ({ kind := some k, ps := k.init, real := real, adaptive := adaptive, keyed := keyed,
         rule := if keyed then ruleOf hs else .consistentOnly, earlier := [] }, "ok | - | 0")
    match pt, rest with
    | "mn", _ => ({ kind := some PKind.manual, ps := .unit, real := real, mustAll := true, manual := true }, "ok | - | 0")
    | "bc", _ =>
      ({ kind := some (PKind.basicHash (hasherFn hs)), ps := .unit, real := real, mustAll := true, nilAsEmpty := true,
         rule := ruleOf hs }, "ok | - | 0")
    | "df", _ =>
      ({ kind := some (.uniformBytes ⟨65536, true, true, hasherFn "d"⟩), ps := .ub {}, real := real, adaptive := true,
         keyed := true, rule := .kafkaDefault }, "ok | - | 0")
    | "rr", _ => mk .roundRobin false false
    | "st", _ => mk .sticky false false
    | "sk", _ => mk (.stickyKey (hasherFn hs)) false true
    | "lb", _ => mk .leastBackup false false
    | "ub", [limit, ad, keys] =>
      match limit.toInt? with
      | some limit => mk (.uniformBytes ⟨limit, ad == "1", keys == "1", hasherFn hs⟩) (ad == "1") (keys == "1")
      | none => (st, "bad-op | - | 0")
    | _, _ => (st, "bad-op | - | 0")
  | ["nb"] =>
    match st.kind with
    | some k =>
      let has := match k with | .sticky => true | .stickyKey _ => true | .leastBackup => true | _ => false
      ({ st with ps := k.onNewBatch st.ps }, (if has then "ok" else "none") ++ " | - | 0")
    | none => (st, "bad-op | - | 0")
  | ["p", k, vlen, hdrs, n, backups, draws] =>
    match st.kind, parseKey k, vlen.toNat?, n.toInt? with
    | some kind, some key, some vlen, some n =>
      let rec_ : Rec := ⟨key, vlen, parseHdrs hdrs, 0⟩
      let mapping := parseCsvInt backups
      let drawsL := (parseCsvInt draws).map Int.toNat
      let implPick := impl.toInt?
      -- model column
      let keyedCall := st.keyed && key.isSome
      let exact := !st.real && !(st.adaptive && !keyedCall)
      let (ps', mout) :=
        if exact then
          match kind.partitionN st.ps rec_ n (Iter.ofMapping mapping) drawsL with
          | .ok s p => (s, toString p)
          | .panic => (st.ps, "panic")
        else
          match implPick with
          | some p =>
            match kind.acceptN st.ps rec_ n mapping p with
            | some s => (s, toString p)
            | none => (st.ps, "not-accepted")
          | none => (st.ps, "not-accepted")
      -- Spec on the implementation's pick
      let okey := if st.keyed then key else none
      let (verdict, earlier') :=
        match implPick with
        | some p =>
          let o : Obs := ⟨okey, n, p⟩
          let ok := obsOk st.rule st.earlier o
          (verdictStr ok (if inRange n p then "keyed-pick" else "out-of-range"),
           if okey.isSome then o :: st.earlier else st.earlier)
        | none => ("0:panic", st.earlier)
      ({ st with ps := ps', earlier := earlier' }, s!"{mout} | {verdict} | {boolStr (n ≥ 2)}")
    | _, _, _, _ => (st, "bad-op | - | 0")
  | ["rc", k] =>
    match st.kind, parseKey k with
    | some kind, some key =>
      let m := kind.requiresConsistency ⟨key, 0, [], 0⟩
      let must := (st.keyed && key.isSome) || st.mustAll
      let v := match impl with
        | "true" => verdictStr (rcOk must true) "keyed-record-not-consistent"
        | "false" => verdictStr (rcOk must false) "keyed-record-not-consistent"
        | _ => "0:requires-consistency-panic"
      (st, s!"{if m then "true" else "false"} | {v} | {boolStr (key.isSome || st.keyed || st.mustAll)}")
    | _, _ => (st, "bad-op | - | 0")
  | ["sel", k, vlen, hdrs, rpart, nAll, writable, buffered, loaderr, draw] =>
    match st.kind, parseKey k, vlen.toNat?, rpart.toInt?, nAll.toNat? with
    | some kind, some key, some vlen, some rpart, some nAll =>
      let rec_ : Rec := ⟨key, vlen, parseHdrs hdrs, rpart⟩
      let bufs := parseCsvInt buffered
      let parts : List Part := (List.range nAll).map fun i =>
        ⟨i, bufs.getD i 0, if st.openBatch.contains i then .fits else .newBatch⟩
      let wl := parseCsvNat writable
      let t : TopicData := ⟨loaderr == "f", parts, wl.filterMap (parts[·]?)⟩
      let consistent := kind.requiresConsistency rec_
      let exact := consistent || t.fatalLoadErr || (!st.real && !st.adaptive)
      let draws := List.replicate (nAll + 1) (draw.toNat?.getD 0)
      let implPart := parsePlaced impl
      let (ps', mout) :=
        if exact then
          match kind.doPartition st.ps t rec_ draws draws with
          | .placed s part b => (s, selStr (.placed s part b))
          | o => (st.ps, selStr o)
        else if st.real then (st.ps, "*")
        else
          -- injected source, adaptive uniform bytes, unkeyed record: the float pick is not predicted
          let mapping := kind.mappingOf rec_ t
          match implPart with
          | some p =>
            match mapping.findIdx? (·.num == p) with
            | some idx =>
              match kind.acceptN st.ps rec_ mapping.length (mapping.map (·.buffered)) idx with
              | some s => (s, impl)
              | none => (st.ps, "not-accepted")
            | none => (st.ps, "not-accepted")
          | none => (st.ps, "not-accepted")
      let (verdict, obs) := selVerdict st key rpart nAll wl t.fatalLoadErr impl
      let st' := { st with ps := ps',
                           openBatch := match implPart with | some p => p :: st.openBatch | none => st.openBatch,
                           selEarlier := match obs with | some o => o :: st.selEarlier | none => st.selEarlier }
      (st', s!"{mout} | {verdict} | {boolStr (nAll ≥ 2)}")
    | _, _, _, _, _ => (st, "bad-op | - | 0")
  | ["e2e", nAll, leaderless, k] =>
    match st.kind, parseKey k, nAll.toNat? with
    | some kind, some key, some nAll =>
      let rec_ : Rec := ⟨key, 1, [], 0⟩
      let dead := parseCsvNat leaderless
      let parts : List Part := (List.range nAll).map fun i => ⟨i, 0, .fits⟩
      let wl := (List.range nAll).filter (!dead.contains ·)
      let t : TopicData := ⟨false, parts, wl.filterMap (parts[·]?)⟩
      let mout :=
        if kind.requiresConsistency rec_ then selStr (kind.doPartition kind.init t rec_ [] []) else "*"
      let (verdict, obs) := selVerdict st key 0 nAll wl false impl
      let st' := { st with selEarlier := match obs with | some o => o :: st.selEarlier | none => st.selEarlier }
      (st', s!"{mout} | {verdict} | {boolStr (nAll ≥ 2 && !dead.isEmpty)}")
    | _, _, _ => (st, "bad-op | - | 0")
  | ["e2eflush"] => (st, "ok | - | 0")
  | ["prod", k, pick] =>
    match k.toNat?, pick.toInt? with
    | some k, some pick =>
      let m := if doPartitionRejects pick k then "rejected" else "accepted"
      let v := match impl with
        | "rejected" => verdictStr (rejectOk k pick true) "doPartition"
        | "accepted" => verdictStr (rejectOk k pick false) "doPartition"
        | _ => "0:doPartition-other"
      (st, s!"{m} | {v} | 1")
    | _, _ => (st, "bad-op | - | 0")
  | _ => (st, "bad-op | - | 0")

def main : IO UInt32 := runLoop ({} : St) step
