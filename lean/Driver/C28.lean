import Driver.Common
import FranzVerif.Model.C28
import FranzVerif.Spec.C28
/-! Sub-driver C28. Input lines `op | impl`; output `model | verdict | nontrivial` (see harness/cmd/c28).

The model column is `Model.C28` run on the op (exact pick when the random source is injected, trace
acceptance `impl pick if possible else not-accepted` otherwise); the verdict is `Spec.C28` evaluated on
the implementation's output. -/
open Driver Model.C28 Spec.C28

structure St where
  kind : Option PKind := none
  ps : PState := .rr {}
  real : Bool := false
  adaptive : Bool := false
  keyed : Bool := false
  rule : KeyRule := .consistentOnly
  earlier : List Obs := []

def parseKey (s : String) : Option (Option (List UInt8)) :=
  if s = "-" then some none else (parseHex? s).map some

def parseCsvInt (s : String) : List Int :=
  if s = "_" then [] else (s.splitOn ",").filterMap (·.toInt?)

def parseHdrs (s : String) : List (Nat × Nat) :=
  if s = "_" then [] else
  (s.splitOn ",").filterMap fun kv =>
    match kv.splitOn ":" with
    | [a, b] => match a.toNat?, b.toNat? with | some x, some y => some (x, y) | _, _ => none
    | _ => none

def hashOf (hasher : String) (key : List UInt8) : BitVec 32 :=
  if hasher = "d" then murmur2 key else fnv32a key

def hasherFn (hasher : String) : Hasher := fun key n =>
  match hasher with
  | "d" => kafkaHasher (murmur2 key) n
  | "kf" => kafkaHasher (fnv32a key) n
  | "sf" => saramaHasher (fnv32a key) n
  | _ => saramaCompatHasher (fnv32a key) n

def ruleOf (hasher : String) : KeyRule :=
  match hasher with
  | "d" => .kafkaDefault
  | "cf" => .saramaFnv
  | "sf" => .unsignedFnv
  | _ => .consistentOnly

def optStr : Option Int → String
  | some p => toString p
  | none => "panic"

def verdictStr (ok : Bool) (key : String) : String := if ok then "1" else "0:" ++ key

def step (st : St) (line : String) : St × String :=
  let (op, impl) := splitBar line
  match toks op with
  | ["mm", k] =>
    match parseKey k with
    | some key =>
      let bytes := key.getD []
      let m := (murmur2 bytes).toNat
      let v := match impl.toNat? with | some r => verdictStr (r == murmur2U bytes) "murmur2" | none => "0:murmur2"
      (st, s!"{m} | {v} | {boolStr (bytes.length ≥ 1)}")
    | none => (st, "bad-op | - | 0")
  | ["hk", hs, k, n] =>
    match parseKey k, n.toInt? with
    | some key, some n =>
      let bytes := key.getD []
      let m := hasherFn hs bytes n
      let want : Int := match hs with
        | "d" => kafkaPartition bytes n
        | "kf" => kafkaOfHash (fnv1a32 bytes) n
        | "sf" => unsignedPartition (fnv1a32 bytes) n
        | _ => saramaPartition (fnv1a32 bytes) n
      let v := match impl.toInt? with
        | some r => verdictStr (r == want && inRange n r) ("hasher-" ++ hs)
        | none => "0:hasher-panic"
      (st, s!"{optStr m} | {v} | {boolStr (n ≥ 2)}")
    | _, _ => (st, "bad-op | - | 0")
  | ["hr", kd, h, n] =>
    match h.toNat?, n.toInt? with
    | some h, some n =>
      let hv := BitVec.ofNat 32 h
      let m := match kd with | "k" => kafkaHasher hv n | "s" => saramaHasher hv n | _ => saramaCompatHasher hv n
      let want : Int := match kd with | "k" => kafkaOfHash h n | "s" => unsignedPartition h n | _ => saramaPartition h n
      let v := match impl.toInt? with
        | some r => verdictStr (r == want && inRange n r) ("hasher-" ++ kd)
        | none => "0:hasher-panic"
      (st, s!"{optStr m} | {v} | {boolStr (n ≥ 2)}")
    | _, _ => (st, "bad-op | - | 0")
  | "reset" :: pt :: mode :: hs :: rest =>
    let real := mode == "real"
    let mk (k : PKind) (adaptive keyed : Bool) : St × String :=
      ({ kind := some k, ps := k.init, real := real, adaptive := adaptive, keyed := keyed,
         rule := if keyed then ruleOf hs else .consistentOnly, earlier := [] }, "ok | - | 0")
    match pt, rest with
    | "rr", _ => mk .roundRobin false false
    | "st", _ => mk .sticky false false
    | "sk", _ => mk (.stickyKey (hasherFn hs)) false true
    | "lb", _ => mk .leastBackup false false
    | "ub", [limit, ad, keys] =>
      match limit.toInt? with
      | some limit => mk (.uniformBytes ⟨limit, ad == "1", keys == "1", hasherFn hs⟩) (ad == "1") (keys == "1")
      | none => (st, "bad-op | - | 0")
    | _, _ => (st, "bad-op | - | 0")
  | ["nb"] =>
    match st.kind with
    | some k =>
      let has := match k with | .sticky => true | .stickyKey _ => true | .leastBackup => true | _ => false
      ({ st with ps := k.onNewBatch st.ps }, (if has then "ok" else "none") ++ " | - | 0")
    | none => (st, "bad-op | - | 0")
  | ["p", k, vlen, hdrs, n, backups, draws] =>
    match st.kind, parseKey k, vlen.toNat?, n.toInt? with
    | some kind, some key, some vlen, some n =>
      let rec_ : Rec := ⟨key, vlen, parseHdrs hdrs⟩
      let mapping := parseCsvInt backups
      let drawsL := (parseCsvInt draws).map Int.toNat
      let implPick := impl.toInt?
      -- model column
      let keyedCall := st.keyed && key.isSome
      let exact := !st.real && !(st.adaptive && !keyedCall)
      let (ps', mout) :=
        if exact then
          match kind.partitionN st.ps rec_ n (Iter.ofMapping mapping) drawsL with
          | .ok s p => (s, toString p)
          | .panic => (st.ps, "panic")
        else
          match implPick with
          | some p =>
            match kind.acceptN st.ps rec_ n mapping p with
            | some s => (s, toString p)
            | none => (st.ps, "not-accepted")
          | none => (st.ps, "not-accepted")
      -- Spec on the implementation's pick
      let okey := if st.keyed then key else none
      let (verdict, earlier') :=
        match implPick with
        | some p =>
          let o : Obs := ⟨okey, n, p⟩
          let ok := obsOk st.rule st.earlier o
          (verdictStr ok (if inRange n p then "keyed-pick" else "out-of-range"),
           if okey.isSome then o :: st.earlier else st.earlier)
        | none => ("0:panic", st.earlier)
      ({ st with ps := ps', earlier := earlier' }, s!"{mout} | {verdict} | {boolStr (n ≥ 2)}")
    | _, _, _, _ => (st, "bad-op | - | 0")
  | ["prod", k, pick] =>
    match k.toNat?, pick.toInt? with
    | some k, some pick =>
      let m := if doPartitionRejects pick k then "rejected" else "accepted"
      let v := match impl with
        | "rejected" => verdictStr (rejectOk k pick true) "doPartition"
        | "accepted" => verdictStr (rejectOk k pick false) "doPartition"
        | _ => "0:doPartition-other"
      (st, s!"{m} | {v} | 1")
    | _, _ => (st, "bad-op | - | 0")
  | _ => (st, "bad-op | - | 0")

def main : IO UInt32 := runLoop ({} : St) step
