import Driver.Common
import FranzVerif.Model.C15
import FranzVerif.Gen.Schema
/-! Sub-driver C15 / C16 (one executable, the op name selects the property).

  enc T ver <tree> | <hex> <tree'>        C15.  model: `encTop` of the tree with the regenerated schema, then `decTop` of those bytes.
                                          Spec on the implementation's output: its bytes = the interpreter's bytes and the
                                          tree `ReadFrom` recovered = `canonTop` (present fields, absent fields at defaults,
                                          unknown tags). Failing key `T:vN:<field path or bytes@field>`.
  dec T ver <hex> | ok <tree> r=1 u=1 a=1 | err u=1 a=1 | panic:… | hang
                                          C16.  model: `decTop`. Spec on the implementation's output: no panic, `a=1` (allocation
                                          within the bound), `u=1` (UnsafeReadFrom agrees), `r=1` (re-encode + decode is stable),
                                          and no call exceeds its deadline (`hang`; since /repo 994d56c the tag-count loop
                                          stops on a failed reader, so every decode is linear in its input).

Value trees: `i<int>` | `b<hex>` `b.` `b-` (nil) | `n` (nil slice / pointer) | `[ … ]` | `{ fields… ; key:hex … }`. -/
open Driver Model.C15

partial def parseVals (stop : String) : List String → Vals → Option (Vals × List String)
  | [], _ => none
  | t :: ts, acc =>
    if t == stop then some (acc, ts) else
    match parseVal (t :: ts) with
    | some (v, rest) =>
      match parseVals stop rest .nil with
      | some (vs, rest') => some (.cons v vs, rest')
      | none => none
    | none => none
where
  parseTags : List String → List (Nat × Bytes) → Option (List (Nat × Bytes) × List String)
    | [], _ => none
    | "}" :: ts, acc => some (acc.reverse, ts)
    | t :: ts, acc =>
      match t.splitOn ":" with
      | [k, h] =>
        match k.toNat?, parseHex? h with
        | some k, some b => parseTags ts ((k, b) :: acc)
        | _, _ => none
      | _ => none
  parseVal : List String → Option (Val × List String)
    | [] => none
    | "n" :: ts => some (.null, ts)
    | "[" :: ts =>
      match parseVals "]" ts .nil with
      | some (vs, rest) => some (.list vs, rest)
      | none => none
    | "{" :: ts =>
      match parseVals ";" ts .nil with
      | some (vs, rest) =>
        match parseTags rest [] with
        | some (tags, rest') => some (.stru vs tags, rest')
        | none => none
      | none => none
    | t :: ts =>
      if t.startsWith "i" then (t.drop 1).toString.toInt?.map fun i => (.int i, ts)
      else if t == "b-" then some (.blob none, ts)
      else if t.startsWith "b" then (parseHex? (t.drop 1).toString).map fun b => (.blob (some b), ts)
      else none

def parseTree (ts : List String) : Option Val :=
  match parseVals.parseVal ts with
  | some (v, []) => some v
  | _ => none

mutual
partial def showVal : Val → List String
  | .int i => [s!"i{i}"]
  | .blob none => ["b-"]
  | .blob (some b) => ["b" ++ toHex b]
  | .null => ["n"]
  | .list vs => ["["] ++ showVals vs ++ ["]"]
  | .stru vs unk => ["{"] ++ showVals vs ++ [";"] ++ unk.map (fun e => s!"{e.1}:{toHex e.2}") ++ ["}"]
partial def showVals : Vals → List String
  | .nil => []
  | .cons v r => showVal v ++ showVals r
end

def treeStr (v : Val) : String := " ".intercalate (showVal v)

def findTop (name : String) : Option Top := Gen.Schema.all.find? fun t => t.name == name

/-- path of the first difference between two trees, named with the schema's field names. -/
partial def diffPath : Ty → Val → Val → Option String
  | .struct _ _ fs, .stru a ua, .stru b ub =>
    match go fs a b with
    | some p => some p
    | none => if ua == ub then none else some "UnknownTags"
  | .arr _ t, .list a, .list b => goL t a b 0
  | _, a, b => if Val.beq a b then none else some ""
where
  go : Fields → Vals → Vals → Option String
    | .cons name _ _ _ _ t rest, .cons a ra, .cons b rb =>
      match diffPath t a b with
      | some p => some (if p == "" then name else name ++ "." ++ p)
      | none => go rest ra rb
    | _, .nil, .nil => none
    | .nil, a, b => if Vals.beq a b then none else some "<length-field-minus bytes>"
    | _, _, _ => some "arity"
  goL (t : Ty) : Vals → Vals → Nat → Option String
    | .cons a ra, .cons b rb, i =>
      match diffPath t a b with
      | some p => some (if p == "" then s!"[{i}]" else s!"[{i}]." ++ p)
      | none => goL t ra rb (i + 1)
    | .nil, .nil, _ => none
    | _, _, _ => some "len"

/-- the schema path (field names, element indices) of the value whose encoding (by the interpreter) contains byte offset `off`;
`<len>` is an array length prefix, `<tags>` the tag section of a struct. -/
partial def locate (ver : Int) (flex : Bool) : Ty → Val → Nat → String
  | .struct nullable ff fs, .stru vals _, off =>
    let fl := flexAt ff ver
    let start := if nullable then 1 else 0
    if off < start then "<present>" else
    let rec go : Fields → Vals → Nat → String
      | .cons name minV maxV tag _ t rest, .cons x r, pos =>
        if tag.isSome || !present minV maxV ver then go rest r pos
        else
          let n := match enc ver fl t x with | some b => b.length | none => 0
          if off < pos + n then
            let sub := locate ver fl t x (off - pos)
            if sub == "" then name else name ++ "." ++ sub
          else go rest r (pos + n)
      | _, _, _ => "<tags>"
    go fs vals start
  | .arr k t, .list vs, off =>
    let h := (encArrHdr ver flex k false vs.length).length
    if off < h then "<len>" else
    let rec goL : Vals → Nat → Nat → String
      | .cons x r, i, pos =>
        let n := match enc ver flex t x with | some b => b.length | none => 0
        if off < pos + n then
          let sub := locate ver flex t x (off - pos)
          if sub == "" then s!"[{i}]" else s!"[{i}]." ++ sub
        else goL r (i + 1) (pos + n)
      | .nil, i, _ => s!"[{i}]"
    goL vs 0 h
  | _, _, _ => ""

def fieldAtOffset (ver : Int) (top : Top) (v : Val) (off : Nat) : String :=
  let p := locate ver false top.ty v off
  if p == "" then "?" else p

def firstDiff (a b : Bytes) : Nat :=
  let rec go : Bytes → Bytes → Nat → Nat
    | x :: xs, y :: ys, i => if x == y then go xs ys (i + 1) else i
    | _, _, i => i
  go a b 0

partial def valNontrivial : Val → Bool
  | .int i => i != 0
  | .blob (some b) => !b.isEmpty && b.any (· != 0)
  | .blob none => false
  | .null => false
  | .list vs => vs.length > 0
  | .stru vs unk => !unk.isEmpty || vs.toList.any valNontrivial

def resStr (r : Res Val) : String :=
  match r with
  | .ok v _ => "ok " ++ treeStr v
  | .err _ => "err"
  | .panic m => "panic:" ++ m

def stepEnc (name ver : String) (tree : List String) (impl : String) : String :=
  match findTop name, ver.toInt?, parseTree tree with
  | some top, some ver, some v =>
    let ver' := verOfVal top ver v
    match encTop top ver v with
    | none => s!"outside-domain | 0:{name}:v{ver'}:outside-model-domain | 0"
    | some bytes =>
      let back := decTop top ver bytes
      let mout := toHex bytes ++ " " ++ resStr back
      let want := canonTop top ver v
      let nt := boolStr (valNontrivial v)
      -- Spec on the implementation's output
      let verdict :=
        match toks impl with
        | h :: rest =>
          match parseHex? h with
          | none => s!"0:{name}:v{ver'}:{h}"          -- panic:… / hang
          | some ib =>
            if ib != bytes then
              s!"0:{name}:v{ver'}:bytes@{fieldAtOffset ver' top v (firstDiff ib bytes)}"
            else match rest with
              | "ok" :: t2 =>
                match parseTree t2 with
                | some it =>
                  match diffPath top.ty it want with
                  | none => "1"
                  | some p => s!"0:{name}:v{ver'}:read@{p}"
                | none => s!"0:{name}:v{ver'}:unparsable"
              | _ => s!"0:{name}:v{ver'}:read-failed"
        | [] => "0:empty"
      s!"{mout} | {verdict} | {nt}"
  | none, _, _ => "unknown-type | - | 0"
  | _, _, _ => "bad-op | - | 0"

def stepDec (name ver hex : String) (impl : String) : String :=
  match findTop name, ver.toInt?, parseHex? hex with
  | some top, some ver, some src =>
    let r := decTop top ver src
    let nt := boolStr (src.length > 2)
    match r with
    | .err _ => s!"err u=1 a=1 | {specDec name ver impl} | {nt}"
    | .ok v _ => s!"ok {treeStr v} r=1 u=1 a=1 | {specDec name ver impl} | {nt}"
    | .panic m => s!"panic:{m} | {specDec name ver impl} | {nt}"
  | none, _, _ => "unknown-type | - | 0"
  | _, _, _ => "bad-op | - | 0"
where
  /-- C16 as stated, evaluated on the implementation's own output. -/
  specDec (name : String) (ver : Int) (impl : String) : String :=
    if impl.startsWith "panic" then s!"0:{name}:v{ver}:panic"
    else if impl == "hang" then s!"0:{name}:v{ver}:hang"
    else
      let ts := toks impl
      if ts.contains "a=0" then s!"0:{name}:v{ver}:alloc"
      else if ts.contains "u=0" then s!"0:{name}:v{ver}:unsafe-differs"
      else if ts.contains "r=0" then s!"0:{name}:v{ver}:reencode-unstable"
      else "1"

def step (_ : Unit) (line : String) : Unit × String :=
  let (op, impl) := splitBar line
  match toks op with
  | "enc" :: name :: ver :: tree => ((), stepEnc name ver tree impl)
  | ["dec", name, ver, hex] => ((), stepDec name ver hex impl)
  | _ => ((), "bad-op | - | 0")

def main : IO UInt32 := runLoop () step
