import Driver.Common
import FranzVerif.Model.Producer
/-! Shared sub-driver for the producer histories (C01, C03, C14): parses the event tokens of
`harness/cmd/sim01`, runs the monitor and reports the first refused rule that belongs to the
property being checked. After a refusal the state is advanced with `apply` so that the rest of the
history is still monitored. -/
namespace Driver.ProducerHist
open Driver Model.Producer

def hexNat (s : String) : Nat :=
  s.toList.foldl (fun acc ch => acc * 16 + (hexVal ch).getD 0) 0

/-- error token: `0` or `class/hash` -/
def parseErr (t : String) : Err :=
  if t == "0" then Err.ok else
  match t.splitOn "/" with
  | [c, h] => ⟨if c == "maxbuf" then .maxBuffered else .other, hexNat (c ++ h) + 1⟩
  | _ => ⟨.other, hexNat t + 1⟩

def parseKind : String → Option Kind
  | "p" => some .produce | "t" => some .try_ | "s" => some .sync | _ => none

def parseEv (t : String) : Option Ev :=
  match t.splitOn ":" with
  | ["P", id, k, sz] => do some (.call (← id.toNat?) (← parseKind k) (← sz.toNat?))
  | ["B", id] => do some (.hookB (← id.toNat?))
  | ["A", id, n, b, sz] => do some (.admit (← id.toNat?) (← n.toNat?) (← b.toNat?) (← sz.toNat?))
  | ["K", id] => do some (.block (← id.toNat?))
  | ["W", id] => do some (.unblock (← id.toNat?))
  | ["U", id, e] => do some (.hookU (← id.toNat?) (parseErr e))
  | ["R", id, e, _off] => do some (.promise (← id.toNat?) (parseErr e))
  | ["D", id, n, b] => do some (.release (← id.toNat?) (← n.toNat?) (← b.toNat?))
  | ["X", id] => do some (.ret (← id.toNat?))
  | ["Fs", k] => do some (.flushStart (← k.toNat?))
  | ["As", k] => do some (.flushStart (← k.toNat?))
  | ["Fe", k, e] => do some (.flushEnd (← k.toNat?) (e == "0"))
  | ["Ae", k, e] => do some (.flushEnd (← k.toNat?) (e == "0"))
  | ["Cs"] => some .closeStart
  | ["Ce"] => some .closeEnd
  | ["Q", n, b, _] => do some (.quiesce (← n.toNat?) (← b.toNat?))
  | _ => none

def parseCfg (t : String) : Option Cfg :=
  match t.splitOn ":" with
  | ["cfg", r, b, m] => do some { maxRecs := (← r.toNat?), maxBytes := (← b.toNat?), manual := m == "1" }
  | _ => none

/-- all refusals `(index, rule)` of a history, continuing after each with `apply` -/
def refusals (c : Cfg) : St → List Ev → Nat → List (Nat × String) → List (Nat × String)
  | _, [], _, acc => acc.reverse
  | s, e :: es, i, acc =>
    match check c s e with
    | none => refusals c (apply c s e) es (i + 1) acc
    | some r => refusals c (apply c s e) es (i + 1) ((i, r) :: acc)

def handle (prop : String) (line : String) : String :=
  let (_, impl) := splitBar line
  if impl.startsWith "PANIC" || impl.startsWith "HANG" || impl.startsWith "ERR" then
    s!"* | 0:{prop}.scenario-{(impl.splitOn ":").head!.toLower} | 1"
  else
  match toks impl with
  | [] => "!empty | - | 0"
  | ct :: ets =>
    match parseCfg ct with
    | none => "!bad-cfg | - | 0"
    | some c =>
      let evs := ets.map parseEv
      if evs.any (·.isNone) then "!bad-event | - | 0" else
      let es := evs.filterMap id
      let rs := refusals c {} es 0 []
      let mine := rs.filter (fun (_, r) => r.startsWith prop)
      let nBlock := (es.filter (fun e => match e with | .block _ => true | _ => false)).length
      let nErr := (es.filter (fun e => match e with | .promise _ e => e.cls != .ok | _ => false)).length
      let nCall := (es.filter (fun e => match e with | .call _ _ _ => true | _ => false)).length
      let nt := boolStr (decide (nCall ≥ 10) && (decide (nBlock > 0) || decide (nErr > 0)))
      let endsQ := match es.getLast? with | some (.quiesce _ _) => true | _ => false
      if !endsQ then s!"* | 0:{prop}.history-not-quiescent | {nt}" else
      match mine with
      | [] => s!"* | 1 | {nt}"
      | (_, r) :: _ => s!"* | 0:{r} | {nt}"

def mainFor (prop : String) : IO UInt32 :=
  runLoop () (fun _ line => ((), handle prop line))

end Driver.ProducerHist
