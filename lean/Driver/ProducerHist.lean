import Driver.Common
import FranzVerif.Model.Producer
import FranzVerif.Model.ProducerWake
/-! Shared sub-driver for the producer histories (C01, C03, C14): parses the event tokens of
`harness/cmd/sim01`, runs the monitor and reports the first refused rule that belongs to the
property being checked. After a refusal the state is advanced with `apply` so that the rest of the
history is still monitored. -/
namespace Driver.ProducerHist
open Driver Model.Producer

def hexNat (s : String) : Nat :=
  s.toList.foldl (fun acc ch => acc * 16 + (hexVal ch).getD 0) 0

/-- error token: `0` or `class/hash` -/
def parseErr (t : String) : Err :=
  if t == "0" then Err.ok else
  match t.splitOn "/" with
  | [c, h] => ⟨if c == "maxbuf" then .maxBuffered else .other, hexNat (c ++ h) + 1⟩
  | _ => ⟨.other, hexNat t + 1⟩

def parseKind : String → Option Kind
  | "p" => some .produce | "t" => some .try_ | "s" => some .sync | _ => none

def parseEv (t : String) : Option Ev :=
  match t.splitOn ":" with
  | ["P", id, k, sz] => do some (.call (← id.toNat?) (← parseKind k) (← sz.toNat?))
  | ["B", id] => do some (.hookB (← id.toNat?))
  | ["A", id, n, b, sz] => do some (.admit (← id.toNat?) (← n.toNat?) (← b.toNat?) (← sz.toNat?))
  | ["K", id] => do some (.block (← id.toNat?))
  | ["W", id, _bl] => do some (.unblock (← id.toNat?))
  | ["U", id, e] => do some (.hookU (← id.toNat?) (parseErr e))
  | ["R", id, e, _off] => do some (.promise (← id.toNat?) (parseErr e))
  | ["D", id, n, b] => do some (.release (← id.toNat?) (← n.toNat?) (← b.toNat?))
  | ["X", id] => do some (.ret (← id.toNat?))
  | ["Fs", k] => do some (.flushStart (← k.toNat?))
  | ["As", k] => do some (.flushStart (← k.toNat?))
  | ["Fe", k, e] => do some (.flushEnd (← k.toNat?) (e == "0"))
  | ["Ae", k, e] => do some (.flushEnd (← k.toNat?) (e == "0"))
  | ["Cs"] => some .closeStart
  | ["Ce"] => some .closeEnd
  | ["Q", n, b, _] => do some (.quiesce (← n.toNat?) (← b.toNat?))
  | _ => none

/-- tokens that only the wake-up monitor reads -/
def isWakeOnly (t : String) : Bool := t.startsWith "Ww:" || t.startsWith "Dw:" || t.startsWith "Bc:"

/-- The wake-up monitor's view of the history: `W`+`Ww`, `A`, `D`+`Dw`, `Bc`, `X`, `Q`. -/
partial def wakeEvents : List String → List Model.ProducerWake.Ev → List Model.ProducerWake.Ev
  | [], acc => acc.reverse
  | t :: rest, acc =>
    match t.splitOn ":", rest with
    | ["W", id, bl], t2 :: rest2 =>
      match t2.splitOn ":" with
      | ["Ww", _, n, fl] => match id.toNat?, bl.toNat?, n.toNat?, fl.toNat? with
        | some i, some b, some n, some f => wakeEvents rest2 (.unblocked i b n f :: acc)
        | _, _, _, _ => wakeEvents rest acc
      | _ => wakeEvents rest acc
    | ["A", id, _, _, _], _ => match id.toNat? with | some i => wakeEvents rest (.admitted i :: acc) | none => wakeEvents rest acc
    | ["D", id, n, _], t2 :: rest2 =>
      match t2.splitOn ":" with
      | ["Dw", _, bl, fl] => match id.toNat?, n.toNat?, bl.toNat?, fl.toNat? with
        | some i, some n, some b, some f => wakeEvents rest2 (.released i n b f :: acc)
        | _, _, _, _ => wakeEvents rest acc
      | _ => wakeEvents rest acc
    | ["Bc", site], _ => wakeEvents rest (.bcast (site.toNat?.getD 0) :: acc)
    | ["X", id], _ => match id.toNat? with | some i => wakeEvents rest (.returned i :: acc) | none => wakeEvents rest acc
    | ["Fe", _, _], _ => wakeEvents rest (.flushReturned :: acc)
    | ["Ae", _, _], _ => wakeEvents rest (.flushReturned :: acc)
    | ["Q", _, _, _], _ => wakeEvents rest (.quiesce :: acc)
    | _, _ => wakeEvents rest acc

def wakeRefusals : Model.ProducerWake.St → List Model.ProducerWake.Ev → List String → List String
  | _, [], acc => acc.reverse
  | s, e :: es, acc =>
    match Model.ProducerWake.check s e with
    | none => wakeRefusals (Model.ProducerWake.apply s e) es acc
    | some r => wakeRefusals (Model.ProducerWake.apply s e) es (r :: acc)

def parseCfg (t : String) : Option Cfg :=
  match t.splitOn ":" with
  | ["cfg", r, b, m] => do some { maxRecs := (← r.toNat?), maxBytes := (← b.toNat?), manual := m == "1" }
  | _ => none

/-- all refusals `(index, rule)` of a history, continuing after each with `apply` -/
def refusals (c : Cfg) : St → List Ev → Nat → List (Nat × String) → List (Nat × String)
  | _, [], _, acc => acc.reverse
  | s, e :: es, i, acc =>
    match check c s e with
    | none => refusals c (apply c s e) es (i + 1) acc
    | some r => refusals c (apply c s e) es (i + 1) ((i, r) :: acc)

def handle (prop : String) (line : String) : String :=
  let (_, impl) := splitBar line
  if impl.startsWith "PANIC" || impl.startsWith "HANG" || impl.startsWith "ERR" then
    s!"* | 0:{prop}.scenario-{(impl.splitOn ":").head!.toLower} | 1"
  else
  match toks impl with
  | [] => "!empty | - | 0"
  | ct :: ets =>
    match parseCfg ct with
    | none => "!bad-cfg | - | 0"
    | some c =>
      let wake := wakeRefusals {} (wakeEvents ets []) []
      let ets := ets.filter (fun t => !isWakeOnly t)
      let evs := ets.map parseEv
      if evs.any (·.isNone) then "!bad-event | - | 0" else
      let es := evs.filterMap id
      let rs := refusals c {} es 0 [] ++ wake.map (fun r => (0, r))
      let mine := rs.filter (fun (_, r) => r.startsWith prop)
      let nBlock := (es.filter (fun e => match e with | .block _ => true | _ => false)).length
      let nErr := (es.filter (fun e => match e with | .promise _ e => e.cls != .ok | _ => false)).length
      let nCall := (es.filter (fun e => match e with | .call _ _ _ => true | _ => false)).length
      let nt := boolStr (decide (nCall ≥ 10) && (decide (nBlock > 0) || decide (nErr > 0)))
      let endsQ := match es.getLast? with | some (.quiesce _ _) => true | _ => false
      if !endsQ then s!"* | 0:{prop}.history-not-quiescent | {nt}" else
      match mine with
      | [] => s!"* | 1 | {nt}"
      | (_, r) :: _ => s!"* | 0:{r} | {nt}"

def mainFor (prop : String) : IO UInt32 :=
  runLoop () (fun _ line => ((), handle prop line))

end Driver.ProducerHist
