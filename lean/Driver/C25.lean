import Driver.Common
import FranzVerif.Model.C25IO
/-! Sub-driver C25 (and shared parsing/printing for C27). Input lines `op | impl`; output `model | verdict | nontrivial`.

  range  M T | plan          model: `balanceRange` (`*` when two consumers of a topic are incomparable for the
                             unstable Go sort); Spec: `validPlan` on the implementation's plan
  rr     M T | plan          model: `balanceRR`;   Spec: `validPlan`
  sticky M T | plan          model: `*` (engine not modelled); Spec: `validPlan`
  coop   M T | pre # post # pub   pre/post: sticky plan before/after AdjustCooperative from ONE engine run (verif hook),
                             pub: the public CooperativeStickyBalancer path. model: echo pre # `adjust pre` # echo pub;
                             Spec: `validPlan pre`, `validCoop post`, `validCoop pub`
  krange / kuniform KM S | plan   model: `kCompute`; Spec: `validPlan` over the active members
  sticky@R / coop@R M T | out @@ out @@ …   the input balanced R times by the harness (the engine numbers topics
                             in Go map iteration order: one input has several executions); the distinct outputs,
                             each judged as for `sticky` / `coop`; the verdict holds when the Spec holds on all

  M  = `;`-separated members  id/inst/rack/gen/subs/owned   (`-` = none/empty, rack `_` = pointer to "")
       subs = t+t+…, owned = t:p.p+t:p.p
  T  = `;`-separated topics   name:count:racks  (racks `-` = not in partitionRacks, else r.r.r with `_` = "")
  KM = `;`-separated members  id/inst/away/subs/target ;  S = `;`-separated name:count
  plan = `;`-separated  member=t:p.p,t:p.p  (members, topics, partitions sorted) -/
open Driver Model.C25 Model.C25.IO

namespace C25D

def step (_ : Unit) (line : String) : Unit × String :=
  let (op, impl) := splitBar line
  let out :=
    match toks op with
    | [kind0, m, t] =>
      -- `sticky@R` / `coop@R`: the distinct outputs of R repetitions
      let (kind, outs) := match kind0.splitOn "@" with
        | [k, _] => (k, impl.splitOn " @@ ")
        | _ => (kind0, [impl])
      if kind0 != kind && kind != "sticky" && kind != "coop" then "bad-op | - | 0"
      else if kind == "krange" || kind == "kuniform" then
        let ms0 := parseKMembers m
        let snap := (parseTopics t).1
        let assignor := if kind == "krange" then "range" else "uniform"
        let act := ms0.filter (!·.away)
        let model := kCompute assignor ms0 snap
        let mout := if assignor == "range" && kSortTies act then "*" else showPlan (act.map (·.id)) model
        let ip := parsePlan impl
        let ok := validPlan (kSubsOf ms0) (cnt snap) ip && showPlan (act.map (·.id)) ip == impl
        -- conflicting prior targets keep their own stable key (defect repaired in /repo 31831e3)
        let key := if kind == "krange" then "kfake-range"
                   else if disjointPriors ms0 snap then "kfake-uniform" else "kfake-uniform-conflicting-priors"
        let nt := act.length ≥ 2 && ((kAllTPs act snap).length ≥ 2)
        s!"{mout} | {verdict ok key} | {boolStr nt}"
      else
        -- NewConsumerBalancer: member ids deduplicated, each subscription sorted and compacted (67aaac1)
        let raw := dedupMembers (parseMembers m)
        let ms := raw.map fun x => { x with topics := dedup x.topics }
        let (topics, racks) := parseTopics t
        let ids := ms.map (·.id)
        let nt := boolStr (ms.length ≥ 2 && totalParts ms topics ≥ 2)
        let n := cnt topics
        -- a member whose subscription lists one topic twice (malformed metadata): failures of the sticky
        -- engine on such input keep their own stable key (defect repaired in /repo 67aaac1)
        let dupSub := raw.any fun m => (dedup m.topics).length != m.topics.length
        if kind == "range" then
          let mout := if sortTies ms then "*" else showPlan ids (balanceRange ms topics racks)
          let ip := parsePlan impl
          let ok := validPlan (subsOf ms) n ip && showPlan ids ip == impl
          s!"{mout} | {verdict ok "range"} | {nt}"
        else if kind == "rr" then
          let mout := match balanceRR ms topics with
            | some p => showPlan ids p
            | none => "hang"
          let ip := parsePlan impl
          let ok := validPlan (subsOf ms) n ip && showPlan ids ip == impl
          s!"{mout} | {verdict ok "rr"} | {nt}"
        else if kind == "sticky" then
          let ok := outs.all fun one =>
            let ip := parsePlan one
            validPlan (subsOf ms) n ip && showPlan ids ip == one
          s!"* | {verdict ok (if dupSub then "sticky-duplicate-subscription" else "sticky")} | {nt}"
        else if kind == "coop" then
          -- per output: (model text, key of the first failed part or none)
          let parts : List (String × Option String) := outs.map fun one =>
            match one.splitOn " # " with
            | [pre, post, pub] =>
              let p := parsePlan pre
              let a := parsePlan post
              let b := parsePlan pub
              let wf := showPlan ids p == pre && showPlan ids a == post && showPlan ids b == pub
              let okPre := validPlan (subsOf ms) n p
              let okPost := validCoop ms n a
              let okPub := validCoop ms n b
              let key := if !wf then "coop-sticky-malformed"
                         else if dupSub then "sticky-duplicate-subscription"
                         else if !okPre then "coop-sticky-plan"
                         else if !okPost then "coop-sticky-adjusted" else "coop-sticky-public"
              (s!"{pre} # {showPlan ids (adjust ms p)} # {pub}", if wf && okPre && okPost && okPub then none else some key)
            | _ => ("bad-impl", some "coop-sticky-malformed")
          let mout := " @@ ".intercalate (parts.map (·.1))
          match parts.findSome? (·.2) with
          | none => s!"{mout} | 1 | {nt}"
          | some key => s!"{mout} | 0:{key} | {nt}"
        else "bad-op | - | 0"
    | _ => "bad-op | - | 0"
  ((), out)

end C25D

def main : IO UInt32 := runLoop () C25D.step
