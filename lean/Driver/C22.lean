import Driver.Common
import FranzVerif.Model.Conn
/-! Sub-driver C22 (`conn` scenarios): replays the event history through the connection monitor. The model output is
`*` (the history depends on the Go scheduler); the verdict is the monitor's first refusal. -/
open Driver Model.Conn Model.C22Frame

def parseCls (s : String) : Cls :=
  match s with
  | "canceled" => .canceled | "ctxdeadline" => .ctxdeadline | "timeout" => .timeout | "clientclosed" => .clientclosed
  | "eof" => .eof | "closedpipe" => .closedpipe | "negsize" => .negsize | "oversize" => .oversize
  | "mismatch" => .mismatch | "short" => .short | "bodyshort" => .bodyshort | "dead" => .dead | "dial" => .dial
  | "apiversions" => .apiversions | _ => .other

def isHs (kind : String) : Bool := kind == "hs" || kind == "hsbad" || kind == "hscut"

/-- `some none` = token carries no monitor event -/
def parseEv (t : String) : Option (Option Ev) :=
  match t.splitOn ":" with
  | ["cfg", _k, _flex, stream, tmo, maxread, strict, racy] =>
    do some (some (.cfg (← maxread.toNat?) (← tmo.toNat?) (strict == "1") (racy == "1") (stream == "hugetags" || stream == "bodyhugetags") (stream.startsWith "sasl-")))
  | ["I", i, _key, t] => do some (some (.issue (← i.toNat?) (← t.toNat?)))
  | ["H", c, corr] => do some (some (.hsReq (← c.toNat?) (← corr.toNat?)))
  | ["W", c, corr, i, flex, t] => do some (some (.written ⟨← c.toNat?, ← corr.toNat?, ← i.toNat?, flex == "1", ← t.toNat?⟩))
  | ["S", c, f, kind, nsend, hex] => do
    let bytes ← parseHex? hex
    let n ← nsend.toNat?
    if isHs kind then some (some (.hsFrame (← c.toNat?) (bytes.take n)))
    else some (some (.frame ⟨← c.toNat?, ← f.toNat?, bytes, bytes.take n⟩))
  | ["X", c, _t] => do some (some (.peerClose (← c.toNat?)))
  | ["D", _c, _t] => some none
  | ["C", _i, _t] => some none
  | ["L", _i] => some none
  | ["R", i, "ok", f, t] => do some (some (.ok (← i.toNat?) (← f.toInt?) (← t.toNat?)))
  | ["R", i, "err", cls, t] => do some (some (.err (← i.toNat?) (parseCls cls) (← t.toNat?)))
  | ["R", i, "none"] => do some (some (.never (← i.toNat?)))
  | ["AB", c, n, t] => do some (some (.authBegin (← c.toNat?) (← n.toNat?) (← t.toNat?)))
  | ["AE", c, n, life, t] => do some (some (.authEnd (← c.toNat?) (← n.toNat?) (← life.toNat?) (← t.toNat?)))
  | ["AF", _c, _n, _t] => some none
  | ["P", i, _n, t] => do some (some (.park (← i.toNat?) (← t.toNat?)))
  | ["E", _ms, _t] => some none
  | ["RA", _kind, _t] => some none
  | ["CPU", ms] => do some (some (.cpu (← ms.toNat?)))
  | ["Q"] => some (some .quiesce)
  | _ => none

def refusals : St → List Ev → List String → List String
  | _, [], acc => acc.reverse
  | s, e :: es, acc =>
    match check s e with
    | none => refusals (apply s e) es acc
    | some r => refusals (apply s e) es (r :: acc)

/-- the frame model's step count for every scripted frame stays within the proved linear bound (sanity of the driver's
executable model; `Props.C22.parseFrame_steps_linear` is the theorem) -/
def stepsLinear (es : List Ev) : Bool :=
  es.all (fun e => match e with
    | .frame fr => decide ((parseFrame 4096 (match u32? (fr.full.drop 4) with | some c => c | none => 0) true true fr.full).steps ≤ 2 * fr.full.length + 1)
    | _ => true)

def handle (line : String) : String :=
  let (_, impl) := splitBar line
  if impl.startsWith "PANIC" then "* | 0:C22.scenario-panic | 1"
  else if impl.startsWith "HANG" then "* | 0:C22.scenario-hang | 1"
  else if impl.startsWith "ERR" then "* | 0:C22.scenario-error | 1"
  else
  let evs := (toks impl).map parseEv
  if evs.isEmpty then "!empty | - | 0"
  else if evs.any (·.isNone) then "!bad-event | 0:C22.harness-bad-event | 0" else
  let es := (evs.filterMap id).filterMap id
  let rs := refusals {} es []
  let nIssue := (es.filter (fun e => match e with | .issue .. => true | _ => false)).length
  let nOk := (es.filter (fun e => match e with | .ok .. => true | _ => false)).length
  let nErr := (es.filter (fun e => match e with | .err .. => true | _ => false)).length
  let nt := boolStr (decide (nIssue ≥ 2) && decide (nErr > 0 || nOk ≥ 2))
  match rs with
  | [] => if !stepsLinear es then s!"* | 0:C22.frame-model-steps-not-linear | {nt}" else s!"* | 1 | {nt}"
  | r :: _ => s!"* | 0:{r} | {nt}"

def main : IO UInt32 := runLoop () (fun _ line => ((), handle line))
