import Driver.ProducerHist
import Driver.ConsumerHist
/-! C14: produce half on `prod` scenarios (Model.Producer), fetch half on `cons` scenarios (Model.Consumer). -/
def main : IO UInt32 := Driver.runLoop () (fun _ line =>
  let (op, impl) := Driver.splitBar line
  if op.startsWith "cons" then ((), Driver.ConsumerHist.handle "C14" impl)
  else ((), Driver.ProducerHist.handle "C14" line))
