import Driver.ProducerHist
def main : IO UInt32 := Driver.ProducerHist.mainFor "C14"
