import Driver.Common
import FranzVerif.Model.C34
/-! Sub-driver C34. Input lines `op | impl`; output `model | verdict | nontrivial`.

  tab <enable> <supers> <rt> <users> <hosts> <names> <ops> <acls> | bits
        bits: for u in users, h in hosts, n in names, o in ops: allowedACL(u@h, n, rt, o), then
              for u in users, h in hosts, o in ops: anyAllowedACL(u@h, rt, o)
        model: `Model.C34.allowedACL` / `anyAllowedACL`
        Spec : every implementation bit against `Spec.authorize` / `Spec.authorizeByResourceType` with
               super users `principal(s)`, for every operation (DESCRIBE / DESCRIBE_CONFIGS included)
  wire <acls> | 5 bits   InitProducerID accepted for user a, user b without transactional id, and for user a with
               transactional ids a, ab, b; client host 127.0.0.1, super user admin
        model: `initProducerIDAuthorized`;  Spec: `Spec.initProducerID`

  lists are comma separated (`-` empty, `~` the empty string); an entry is principal,host,rtype,name,pattern,op,perm.

  verdict keys (most severe first): `bad-output` (not a bit string of the right length), `allowed-mismatch`
  (an `allowed` bit differs from `authorize`), `anyallowed-denies-kafka-allow` (kfake denies what Kafka allows),
  `anyallowed-other` (kfake allows, Kafka denies, and Kafka would deny even with every DENY entry removed),
  `anyallowed-ignores-deny` (kfake allows, Kafka denies, and Kafka would allow if the DENY entries were removed:
  the answer is the one the ACL set without its DENY entries deserves).
  The last class is the defect repaired by /repo 46d17aa; the key is kept so that a regression is reported under it.
  Not judged (`-`): ACLs disabled, or "" / "ANONYMOUS" configured as a super user. With an entry outside Kafka's
  domain (permission not ALLOW/DENY, pattern not LITERAL/PREFIXED) in the set, only the any-resource bits are judged
  (theorem (2) has no well-formedness hypothesis; `allowed` has a quirk there). -/
open Driver Model.C34

def str (s : String) : Str := if s == "~" then [] else s.toUTF8.toList

def csv (s : String) : List String := if s == "-" then [] else s.splitOn ","

def parseNat? (s : String) : Option Nat := s.toNat?

def parseEntry (s : String) : Option Acl :=
  match s.splitOn "," with
  | [p, h, rt, n, pat, op, perm] =>
    match parseNat? rt, parseNat? pat, parseNat? op, parseNat? perm with
    | some rt, some pat, some op, some perm => some ⟨str p, str h, rt, str n, pat, op, perm⟩
    | _, _, _, _ => none
  | _ => none

def parseAcls (s : String) : Option (List Acl) :=
  if s == "-" then some [] else (s.splitOn ";").mapM parseEntry

def bits (bs : List Bool) : String := String.ofList (bs.map fun b => if b then '1' else '0')

def parseBits (s : String) : Option (List Bool) :=
  s.toList.mapM fun c => if c == '1' then some true else if c == '0' then some false else none

inductive Sev where
  | ok | ignoresDeny | anyOther | anyDenies | allowedMismatch | badOutput
deriving DecidableEq, Repr

def Sev.rank : Sev → Nat
  | .ok => 0 | .ignoresDeny => 1 | .anyOther => 2 | .anyDenies => 3 | .allowedMismatch => 4 | .badOutput => 5

def Sev.max (a b : Sev) : Sev := if a.rank ≥ b.rank then a else b

def Sev.verdict : Sev → String
  | .ok => "1"
  | .ignoresDeny => "0:anyallowed-ignores-deny"
  | .anyOther => "0:anyallowed-other"
  | .anyDenies => "0:anyallowed-denies-kafka-allow"
  | .allowedMismatch => "0:allowed-mismatch"
  | .badOutput => "0:bad-output"

/-- Judge one any-resource answer of the implementation against Kafka. -/
def judgeAny (supers : List Str) (acls : List Acl) (q : Req) (impl : Bool) : Sev :=
  let want := Spec.authorizeByResourceType supers acls q
  if impl == want then .ok
  else if !impl then .anyDenies
  else if Spec.authorizeByResourceType supers (acls.filter (·.perm != permDeny)) q then .ignoresDeny
  else .anyOther

def judged (c : Cfg) : Bool :=
  c.enableACLs && decide c.noAnonSuper

def allowedJudged (c : Cfg) : Bool := decide (∀ a ∈ c.acls, a.WF)

def tab (enable : Bool) (supers : List Str) (rt : Nat) (users hosts names : List Str) (ops : List Nat)
    (acls : List Acl) (impl : String) : String :=
  let c : Cfg := ⟨enable, supers, acls⟩
  let qsA := users.flatMap fun u => hosts.flatMap fun h => names.flatMap fun n => ops.map fun o => (u, h, n, o)
  let qsB := users.flatMap fun u => hosts.flatMap fun h => ops.map fun o => (u, h, o)
  let mA := qsA.map fun (u, h, n, o) => allowedACL c u h n rt o
  let mB := qsB.map fun (u, h, o) => anyAllowedACL c u h rt o
  let model := bits (mA ++ mB)
  let sp := supers.map principal
  let nt := acls.any fun a =>
    qsA.any (fun (u, h, n, o) => Spec.aclMatches a ⟨principal u, h, n, rt, o⟩) ||
    qsB.any (fun (u, h, o) => Spec.byTypeRelevant a ⟨principal u, h, [], rt, o⟩)
  let verdict :=
    if !judged c then "-" else
    match parseBits impl with
    | none => Sev.badOutput.verdict
    | some ib =>
      if ib.length != qsA.length + qsB.length then Sev.badOutput.verdict else
      let iA := ib.take qsA.length
      let iB := ib.drop qsA.length
      let sA := if !allowedJudged c then Sev.ok else (qsA.zip iA).foldl (fun s ((u, h, n, o), b) =>
        if Spec.authorize sp acls ⟨principal u, h, n, rt, o⟩ == b then s else s.max .allowedMismatch) Sev.ok
      let sB := (qsB.zip iB).foldl (fun s ((u, h, o), b) =>
        s.max (judgeAny sp acls ⟨principal u, h, [], rt, o⟩ b)) sA
      sB.verdict
  s!"{model} | {verdict} | {boolStr nt}"

def wireHost : Str := str "127.0.0.1"

def wire (acls : List Acl) (impl : String) : String :=
  let c : Cfg := ⟨true, [str "admin"], acls⟩
  let qs : List (Str × Option Str) :=
    [(str "a", none), (str "b", none), (str "a", some (str "a")), (str "a", some (str "ab")), (str "a", some (str "b"))]
  let model := bits (qs.map fun (u, t) => initProducerIDAuthorized c u wireHost t)
  let sp := c.superusers.map principal
  let nt := acls.any fun a => a.perm == permAllow && (a.principal == principal (str "a") || a.principal == userStar) && (a.host == wireHost || a.host == star)
  let verdict :=
    if !(judged c && allowedJudged c) then "-" else
    match parseBits impl with
    | none => Sev.badOutput.verdict
    | some ib =>
      if ib.length != qs.length then Sev.badOutput.verdict else
      ((qs.zip ib).foldl (fun s ((u, t), b) =>
        let want := Spec.initProducerID sp acls (principal u) wireHost t
        if want == b then s
        else match t with
          | some _ => s.max .allowedMismatch
          | none =>
            -- the cluster half is an `authorize` decision; if it is what differs, it is an allowed-mismatch
            let cl := Spec.authorize sp acls ⟨principal u, wireHost, clusterName, rtCluster, opIdempotentWrite⟩
            if cl then s.max .allowedMismatch
            else s.max (judgeAny sp acls ⟨principal u, wireHost, [], rtTopic, opWrite⟩ b)) Sev.ok).verdict
  s!"{model} | {verdict} | {boolStr nt}"

def step (st : Unit) (line : String) : Unit × String :=
  let (op, impl) := splitBar line
  match toks op with
  | ["tab", en, supers, rt, users, hosts, names, ops, acls] =>
    match parseNat? rt, (csv ops).mapM parseNat?, parseAcls acls with
    | some rt, some ops, some acls =>
      (st, tab (en == "1") ((csv supers).map str) rt ((csv users).map str) ((csv hosts).map str) ((csv names).map str) ops acls impl)
    | _, _, _ => (st, "bad-op | - | 0")
  | ["wire", acls] =>
    match parseAcls acls with
    | some acls => (st, wire acls impl)
    | none => (st, "bad-op | - | 0")
  | _ => (st, "bad-op | - | 0")

def main : IO UInt32 := runLoop () step
