import Driver.Common
import FranzVerif.Model.Txn
/-! Sub-driver C10 (`eos` scenarios). -/
open Driver Model.Eos

def parseIds (s : String) : Option (List Nat) :=
  if s == "" then some [] else (s.splitOn ",").mapM (·.toNat?)

def parseEv (t : String) : Option (Option Ev) :=
  match t.splitOn ":" with
  | ["In", id] => do some (some (.input (← id.toNat?)))
  | ["Ms", m] => do some (some (.memberStart (← m.toNat?)))
  | ["Mx", m] => do some (some (.memberStop (← m.toNat?)))
  | ["Bi", m, t, ids] => do some (some (.batch (← m.toNat?) (← t.toNat?) (← parseIds ids)))
  | ["Bs", _, _, "err"] => some (some .incomplete)
  | ["Es", m, t, c] => do some (some (.endStart (← m.toNat?) (← t.toNat?) (c == "c")))
  | ["Ee", m, t, r] => do some (some (.endDone (← m.toNat?) (← t.toNat?) (if r == "committed" then 0 else if r == "aborted" then 1 else 2)))
  | ["O", o, id, p, t] => do some (some (.output (← o.toNat?) (← id.toNat?) (← p.toNat?) (← t.toNat?)))
  | ["Q"] => some (some .quiesce)
  | ["ERRclient"] => some (some .incomplete)
  | ["ERRreadback"] => some (some .incomplete)
  | ["ERRinput"] => some (some .incomplete)
  | ["ERRunfinished"] => some (some .incomplete)
  | "F" :: _ => some none
  | _ => none

def refusals : St → List Ev → List String → List String
  | _, [], acc => acc.reverse
  | s, e :: es, acc =>
    match check s e with
    | none => refusals (apply s e) es acc
    | some r => refusals (apply s e) es (r :: acc)

def handle (line : String) : String :=
  let (_, impl) := splitBar line
  if impl.startsWith "PANIC" || impl.startsWith "HANG" || impl.startsWith "ERR" then
    s!"* | 0:C10.scenario-{((impl.splitOn ":").head!.splitOn " ").head!.toLower} | 1"
  else
  match toks impl with
  | [] => "!empty | - | 0"
  | _cfg :: ets =>
    let evs := ets.map parseEv
    if evs.any (·.isNone) then "!bad-event | - | 0" else
    let es := (evs.filterMap id).filterMap id
    let rs := refusals {} es []
    let nMem := (es.filter (fun e => match e with | .memberStart _ => true | _ => false)).length
    let nNotCommitted := (es.filter (fun e => match e with | .endDone _ _ r => r != 0 | _ => false)).length
    let unfinished := ets.contains "ERRunfinished"
    let nt := boolStr (decide (nMem ≥ 3) && (decide (nNotCommitted > 0) || decide (nMem ≥ 4)) && !unfinished)
    match rs with
    | [] => s!"* | 1 | {nt}"
    | r :: _ => s!"* | 0:{r} | {nt}"

def main : IO UInt32 := runLoop () (fun _ line => ((), handle line))
