import Driver.Common
import FranzVerif.Model.C06
import FranzVerif.Spec.C06
/-! Sub-driver C06. Input lines `op | impl`; output `model | verdict | nontrivial`.

  reset | ok
  pfp <req> <rc> <keepctl> <crcoff> <kerr> <aborted> <bytes> <dectable> <descr> | <next> <err> <n> <rec>…

  aborted   `-` or `pid:first,pid:first,…`            (in the order the response lists them)
  bytes     hex of `RecordBatches`
  dectable  `-` or `codec:src:out,…` (`out` = `!` when the real decompressor returned an error): the graph of the
            real `Decompressor.Decompress` on the payloads of this input — the model's codec *parameter*
  descr     `-` (no ground truth: mutated / arbitrary bytes, or an aborted list inconsistent with the log) or
            `<nwhole>/<batch>;<batch>;…` — the log the generator wrote, batch =
            `first,last,pid,pepoch,lepoch,attrs,present,rec+rec+…`, rec = `off_ts_key_val_hdrs`,
            hdrs = `n` or `k=v~k=v`; the first `nwhole` batches are entirely inside `bytes`.
  rec (output) `off_tsNano_key_val_hdrs_tt.ct.txn.ctl_pid_pepoch_lepoch`

model output: `Model.C06.processBytes` with CRC-32 (IEEE, Castagnoli: implemented below, not verified) and the
decompressor table as parameters. Verdict: the Spec (`Spec.C06.holds` against the generator's ground truth when
there is one, `holdsAny` + "no panic, no hang" always) evaluated on the implementation's output. Inputs on which
an int64 computation would overflow (|offset| ≥ 2^62) are outside the model's unbounded integers: model output
`*`, verdict only "no panic". -/
open Driver Model.C06

/-! CRC-32 (reflected, bitwise); parameters of the model -/
def crcByte (poly : UInt32) (crc : UInt32) (b : UInt8) : UInt32 :=
  let step (c : UInt32) : UInt32 := if c &&& 1 == 1 then (c >>> 1) ^^^ poly else c >>> 1
  step (step (step (step (step (step (step (step (crc ^^^ b.toUInt32))))))))
def crc32 (poly : UInt32) (bs : List UInt8) : Nat := ((bs.foldl (crcByte poly) 0xFFFFFFFF) ^^^ 0xFFFFFFFF).toNat

def splitOnC (s : String) (c : Char) : List String := (s.split (· == c)).toList.map (·.toString)

/-- hex token: `-` nil, `.` empty -/
def optHex? (s : String) : Option (Option Bytes) :=
  if s = "-" then some none else (parseHex? s).map some

def parseAborted (s : String) : Option (List (Int × Int)) :=
  if s = "-" then some [] else
  (splitOnC s ',').mapM fun e => match splitOnC e ':' with
    | [p, f] => do let p ← p.toInt?; let f ← f.toInt?; pure (p, f)
    | _ => none

def parseTable (s : String) : Option (List (Nat × Bytes × Option Bytes)) :=
  if s = "-" then some [] else
  (splitOnC s ',').mapM fun e => match splitOnC e ':' with
    | [c, src, out] => do
      let c ← c.toNat?
      let src ← parseHex? src
      let out ← (if out = "!" then some none else (parseHex? out).map some)
      pure (c, src, out)
    | _ => none

def parseHdrs (s : String) : Option (List (Bytes × Option Bytes)) :=
  if s = "n" then some [] else
  (splitOnC s '~').mapM fun e => match splitOnC e '=' with
    | [k, v] => do let k ← parseHex? k; let v ← optHex? v; pure (k, v)
    | _ => none

def parseTs (s : String) : Option (Option Int) := if s = "z" then some none else s.toInt?.map some

def parseLRec (s : String) : Option Spec.C06.LRec :=
  match splitOnC s '_' with
  | [o, ts, k, v, h] => do
    pure ⟨← o.toInt?, ← parseTs ts, ← optHex? k, ← optHex? v, ← parseHdrs h⟩
  | _ => none

def parseLBatch (s : String) : Option Spec.C06.LBatch :=
  match splitOnC s ',' with
  | [f, l, pid, pe, le, att, pr, recs] => do
    let rs ← (if recs = "e" then some [] else (splitOnC recs '+').mapM parseLRec)
    pure ⟨← f.toInt?, ← l.toInt?, ← pid.toInt?, ← pe.toInt?, ← le.toInt?, ← att.toNat?, rs, ← pr.toNat?⟩
  | _ => none

def parseDescr (s : String) : Option (Option (Nat × List Spec.C06.LBatch)) :=
  if s = "-" then some none else
  match splitOnC s '/' with
  | [n, bs] => do
    let n ← n.toNat?
    let bs ← (if bs = "e" then some [] else (splitOnC bs ';').mapM parseLBatch)
    pure (some (n, bs))
  | _ => none

/-- `time.Unix(0, millis*1e6).UnixNano()` -/
def nanoOf (ms : Int) : Int := wrap64 (wrap64 ms * 1000000)

def hdrStr (hs : List (Bytes × Option Bytes)) : String :=
  if hs.isEmpty then "n" else
  "~".intercalate (hs.map fun (k, v) => toHex k ++ "=" ++ (match v with | none => "-" | some v => toHex v))

def optHexStr : Option Bytes → String
  | none => "-"
  | some b => toHex b

def attrsStr (a : Nat) : String :=
  let tt : Int := if a / 128 % 2 = 1 then -1 else (a / 8 % 2 : Nat)
  s!"{tt}.{a % 8}.{a / 16 % 2}.{a / 32 % 2}"

def recStr (r : Rec) : String :=
  let ts := match r.tsMs with | none => "z" | some t => toString (nanoOf (wrap64 t))
  s!"{r.offset}_{ts}_{optHexStr r.key}_{optHexStr r.value}_{hdrStr (r.headers.map fun h => (h.key, h.value))}_{attrsStr r.attrs}_{r.pid}_{r.pepoch}_{r.lepoch}"

def errStr : Option Err → String
  | none => "none"
  | some .kerr => "kerr" | some .unknownMagic => "unknown-magic" | some .short => "short"
  | some .lenMismatch => "len-mismatch" | some .crcShort => "crc-short" | some .crc => "crc"
  | some .decompress => "decompress" | some .batchMagic => "batch-magic" | some .negCount => "neg-count"
  | some .claimNoBytes => "claim-nobytes" | some .msgMagic => "msg-magic" | some .msgAttrs => "msg-attrs"
  | some .innerMagic => "inner-magic" | some .wrapperOffset => "wrapper-offset"

def resStr : Res → String
  | .panic => "panic"
  | .done recs next err => s!"{next} {errStr err} {recs.length}" ++ String.join (recs.map fun r => " " ++ recStr r)

/-- the implementation's record as the Spec sees it -/
def parseORec (s : String) : Option (Spec.C06.ORec × Int) :=
  match splitOnC s '_' with
  | [o, ts, k, v, h, att, pid, pe, le] => do
    let ats ← (splitOnC att '.').mapM (·.toInt?)
    let a ← match ats with
      | [tt, ct, txn, ctl] => some ((if tt = -1 then 128 else tt.toNat * 8) + ct.toNat + txn.toNat * 16 + ctl.toNat * 32)
      | _ => none
    let off ← o.toInt?
    -- the implementation prints `Timestamp.UnixNano()`; the log holds milliseconds
    let ts ← (parseTs ts).map fun t => t.map fun n => if n % 1000000 = 0 then n / 1000000 else -1180591620717411303424
    pure (⟨off, ts, ← optHex? k, ← optHex? v, ← parseHdrs h, a, ← pid.toInt?, ← pe.toInt?, ← le.toInt?⟩, off)
  | _ => none

def big : Int := 4611686018427387904

def offsetsOf : List Item → List Int
  | [] => []
  | .batch b :: r => b.first :: (b.first + b.lastDelta) :: offsetsOf r
  | .msg m i :: r => m.offset :: (i.msgs.map (·.offset)) ++ offsetsOf r
  | .badMagic o :: r => o :: offsetsOf r
  | _ :: r => offsetsOf r

structure DSt where
  dummy : Nat := 0

def step (st : DSt) (line : String) : DSt × String :=
  let (op, impl) := splitBar line
  match toks op with
  | ["reset"] => (st, "ok | - | 0")
  | ["pfp", req, rc, keep, crcoff, kerr, aborted, hex, table, descr] =>
    match req.toInt?, parseAborted aborted, parseHex? hex, parseTable table, parseDescr descr with
    | some req, some aborted, some bytes, some table, some descr =>
      let env : Env := {
        crcC := crc32 0x82F63B78, crcI := crc32 0xEDB88320,
        dec := fun c src => match table.find? (fun e => e.1 == c && e.2.1 == src) with
          | some e => e.2.2 | none => none,
        disableCrc := crcoff == "1" }
      let o : Opts := { keepControl := keep == "1", readCommitted := rc == "1", offset := req }
      let items := frames env (bytes.length + 1) bytes
      let inRange := (req :: offsetsOf items).all fun x => decide (-big < x ∧ x < big)
      let res := process o (kerr == "1") aborted items
      let mout := if inRange then resStr res else "*"
      let implToks := toks impl
      let bad := match implToks with | [] => true | t :: _ => t.startsWith "panic" || t == "hang"
      let verdict : String :=
        if bad then
          -- the stable key of the defect fixed in /repo 049c23c: a record stream starting an overflowing varint
          let key := if impl.startsWith "panic:runtime_error:_slice_bounds_out_of_range_[:-5]" then "varint-overflow-record-length"
                     else "panic-or-hang"
          "0:" ++ key
        else if !inRange then "-" else
        match implToks with
        | nx :: _e :: _n :: recs =>
          match nx.toInt?, recs.mapM parseORec with
          | some next, some orecs =>
            let anyOk := Spec.C06.holdsAny req (orecs.map (·.2)) next
            if !anyOk then "0:next-offset-or-order" else
            match descr with
            | none => "1"
            | some (nwhole, log) =>
              let q : Spec.C06.Req := ⟨req, keep == "1", rc == "1", aborted⟩
              if kerr == "1" then boolStr (orecs.isEmpty && next == req) else
              if Spec.C06.holds q (log.take nwhole) (log.drop nwhole) (orecs.map (·.1)) next then "1"
              else if (orecs.map (·.1)) != Spec.C06.refRecords q (log.take nwhole) then
                -- stable key of the reported departure: a v1 compressed wrapper marked LogAppendTime (inner timestamps
                -- and timestamp type returned instead of the wrapper's)
                (if items.any (fun it => match it with
                    | .msg m _ => m.isV1 && m.attrs % 4 != 0 && m.attrs / 8 % 2 == 1
                    | _ => false)
                 then "0:v1-wrapper-logappendtime-timestamp" else "0:records-differ-from-reference")
              else "0:next-offset"
          | _, _ => "0:unparsable-output"
        | _ => "0:unparsable-output"
      -- trivial: fewer than 18 bytes, or exactly one complete well-formed frame
      let cut := match items.getLast? with | some (.stop _) => true | some (.badMagic _) => true | _ => false
      let nt := boolStr (items.length ≥ 2 || cut || (match res with | .done _ _ (some _) => true | _ => false))
      (st, s!"{mout} | {verdict} | {nt}")
    | _, _, _, _, _ => (st, "bad-op | - | 0")
  | _ => (st, "bad-op | - | 0")

def main : IO UInt32 := runLoop ({} : DSt) step
