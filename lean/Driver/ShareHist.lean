import Driver.Common
import FranzVerif.Model.Share
/-! Sub-driver for the `share` scenarios (C12 protocol half). -/
namespace Driver.ShareHist
open Driver Model.Share

def parseEv (t : String) : Option (Option Ev) :=
  match t.splitOn ":" with
  | ["V", m, p, o, d] => do some (some (.delivered (← m.toNat?) (← p.toNat?) (← o.toNat?) (← d.toNat?)))
  | ["K", m, p, o, st] => do some (some (.ack (← m.toNat?) (← p.toNat?) (← o.toNat?) (← st.toNat?)))
  | ["Ka", m, p, o] => do some (some (.autoAccept (← m.toNat?) (← p.toNat?) (← o.toNat?)))
  | ["Cb", m, p, e, t] => do some (some (.callback (← m.toNat?) (← p.toNat?) (← e.toNat?) (← t.toNat?)))
  | ["Fs", m] => do some (some (.flushStart (← m.toNat?)))
  | ["Fe", m, r] => do some (some (.flushEnd (← m.toNat?) (r == "ok")))
  | ["Wa", m, rid, p, f, l, ty, t] =>
    do some (some (.wireAck (← m.toNat?) (← rid.toNat?) (← p.toNat?) (← f.toNat?) (← l.toNat?) (← ty.toNat?) (← t.toNat?)))
  | ["Wx", m, rid] => do some (some (.wireLost (← m.toNat?) (← rid.toNat?)))
  | ["Wr", m, rid, p, c] => do some (some (.wireRes (← m.toNat?) (← rid.toNat?) (← p.toNat?) (← c.toNat?)))
  | ["Wq", m, p, f, l, d, t] =>
    do some (some (.acquired (← m.toNat?) (← p.toNat?) (← f.toNat?) (← l.toNat?) (← d.toNat?) (← t.toNat?)))
  | ["Cs", m] => do some (some (.closeStart (← m.toNat?)))
  | ["Cl", m] => do some (some (.closed (← m.toNat?)))
  | ["Q"] => some (some .quiesce)
  | ["Mv", _, _] => some none
  | ["Xf", _, _, _] => some none   -- injected retriable acknowledge error: its `Wr` carries the code
  | ["Xc", m, _, _] => some (m.toNat?.map Ev.connCut)   -- injected connection cut (member unknown: ignored)
  | ["Wbad"] => some none
  | ["ERRclient"] => some none
  | _ => none

def refusals : St → List Ev → List String → List String
  | _, [], acc => acc.reverse
  | s, e :: es, acc =>
    match check s e with
    | none => refusals (apply s e) es acc
    | some r => refusals (apply s e) es (r :: acc)

def handle (impl : String) : String :=
  if impl.startsWith "HANG" && (impl.splitOn "SPIN:acktimer").length > 1 then
    "* | - | 0"   -- inconclusive: kgo's ack-timer spin keeps the bubble from ever becoming quiescent (counted by the harness)
  else if impl.startsWith "PANIC" || impl.startsWith "HANG" || impl.startsWith "ERR" then
    s!"* | 0:C12.scenario-{(((impl.splitOn ":").head!.splitOn " ").head!).toLower} | 1"
  else
  match toks impl with
  | [] => "!empty | - | 0"
  | cfg :: ets =>
    let lock := match cfg.splitOn ":" with
      | ["cfg", _, l] => l.toNat?.getD 0
      | _ => 0
    let evs := ets.map parseEv
    if evs.any (·.isNone) then "!bad-event | - | 0" else
    let es := (evs.filterMap id).filterMap id
    let rs := refusals (init lock) es []
    let nDel := (es.filter (fun e => match e with | .delivered _ _ _ _ => true | _ => false)).length
    let nWire := (es.filter (fun e => match e with | .wireAck _ _ _ _ _ _ _ => true | _ => false)).length
    let nt := boolStr (decide (nDel ≥ 10) && decide (nWire ≥ 3))
    match rs with
    | [] => s!"* | 1 | {nt}"
    | r :: _ => s!"* | 0:{r} | {nt}"

/-- debugging aid (`sharedbg` lines): indices of the refused events -/
def refusalsIdx : St → List Ev → Nat → List String → List String
  | _, [], _, acc => acc.reverse
  | s, e :: es, i, acc =>
    match check s e with
    | none => refusalsIdx (apply s e) es (i + 1) acc
    | some r => refusalsIdx (apply s e) es (i + 1) (s!"{i}:{r}" :: acc)

def debug (impl : String) : String :=
  match toks impl with
  | [] => "!empty | - | 0"
  | cfg :: ets =>
    let lock := match cfg.splitOn ":" with
      | ["cfg", _, l] => l.toNat?.getD 0
      | _ => 0
    let es := ((ets.map parseEv).filterMap id).filterMap id
    " ".intercalate ((refusalsIdx (init lock) es 0 []).take 5) ++ " | - | 0"

end Driver.ShareHist
