import Driver.Common
import FranzVerif.Model.C19
/-! Sub-driver C19. Input lines `op | impl`; output `model | verdict | nontrivial`. Grammar of the ops: header
comment of harness/cmd/c19/main.go.

  sel flags prefs | …          model: `build` + `choose`; Spec: `Spec.selectionOk` on the codec the implementation used
  flags v | …                  model: `mkCompressFlags`; Spec: zstd needs produce v7+
  rt flags prefs input lf | codec dec ind xfl comp
        model: selection model for the codec, `ok:<lf>` for the real decompressor's answer (round trip), gzip XFL byte
        from the level model; Spec: selection clause, round trip, and the *independent decode* of `comp`
        (reference snappy / LZ4 decoders of Model.C19 run here; gzip: python zlib verdict carried in `ind`)
  dec codec max hex [lf] | res oracle
        model: `decompress` with the library parameters instantiated from the oracle (snappy block *bytes* come from the
        reference snappy decoder); zstd is not modelled (`*`); Spec: ok/err only, length ≤ max, and for well-formed
        inputs (`lf` given): the data when it fits, an error when it does not
  xd max dstlen hex | res oracle     model: `xerialDecode`; Spec as for `dec` once `len(src) ≥ 16` -/
open Driver Model.C19

abbrev A := Array UInt8

def nib (c : UInt8) : Option UInt8 :=
  if 48 ≤ c && c ≤ 57 then some (c - 48)
  else if 97 ≤ c && c ≤ 102 then some (c - 87)
  else if 65 ≤ c && c ≤ 70 then some (c - 55)
  else none

def parseHexA (s : String) : Option A :=
  if s == "." || s == "-" then some #[] else
  let b := s.toUTF8
  if b.size % 2 != 0 then none else Id.run do
    let mut out : A := Array.emptyWithCapacity (b.size / 2)
    let mut ok := true
    for i in [0:b.size / 2] do
      match nib b[2 * i]!, nib b[2 * i + 1]! with
      | some x, some y => out := out.push (x * 16 + y)
      | _, _ => ok := false
    return if ok then some out else none

def fnvA (a : A) : UInt64 := a.foldl (fun h c => (h ^^^ c.toUInt64) * 1099511628211) 14695981039346656037

def hex16 (v : UInt64) : String :=
  String.ofList ((List.range 16).map fun i => hexDigit ((v >>> (UInt64.ofNat (4 * (15 - i)))).toNat % 16))

def lfA (a : A) : String := s!"{a.size}:{hex16 (fnvA a)}"

/-! xxHash-32 (seed 0): the checksum parameter of the LZ4 reference decoder. -/
def rotl (x : UInt32) (r : UInt32) : UInt32 := (x <<< r) ||| (x >>> (32 - r))
def le32 (a : A) (i : Nat) : UInt32 :=
  a[i]!.toUInt32 ||| (a[i+1]!.toUInt32 <<< 8) ||| (a[i+2]!.toUInt32 <<< 16) ||| (a[i+3]!.toUInt32 <<< 24)
def xxh32 (a : A) : Nat := Id.run do
  let p1 : UInt32 := 2654435761
  let p2 : UInt32 := 2246822519
  let p3 : UInt32 := 3266489917
  let p4 : UInt32 := 668265263
  let p5 : UInt32 := 374761393
  let n := a.size
  let mut i := 0
  let mut h : UInt32 := p5
  if n ≥ 16 then
    let mut v1 : UInt32 := p1 + p2
    let mut v2 : UInt32 := p2
    let mut v3 : UInt32 := 0
    let mut v4 : UInt32 := 0 - p1
    for k in [0:n / 16] do
      let j := 16 * k
      v1 := rotl (v1 + le32 a j * p2) 13 * p1
      v2 := rotl (v2 + le32 a (j + 4) * p2) 13 * p1
      v3 := rotl (v3 + le32 a (j + 8) * p2) 13 * p1
      v4 := rotl (v4 + le32 a (j + 12) * p2) 13 * p1
    i := 16 * (n / 16)
    h := rotl v1 1 + rotl v2 7 + rotl v3 12 + rotl v4 18
  h := h + UInt32.ofNat n
  for _ in [0:(n - i) / 4] do
    h := rotl (h + le32 a i * p3) 17 * p4
    i := i + 4
  for _ in [0:n - i] do
    h := rotl (h + a[i]!.toUInt32 * p5) 11 * p1
    i := i + 1
  h := h ^^^ (h >>> 15)
  h := h * p2
  h := h ^^^ (h >>> 13)
  h := h * p3
  h := h ^^^ (h >>> 16)
  return h.toNat

def parsePrefs (s : String) : Option (List Pref) :=
  if s == "-" then some [] else
  (s.splitOn ",").mapM fun e =>
    match e.splitOn ":" with
    | [c, l] => match c.toInt?, l.toInt? with
      | some c, some l => some ⟨c, l⟩
      | _, _ => none
    | _ => none

def parseFlags (s : String) : Option (List Int) :=
  if s == "-" then some [] else (s.splitOn ",").mapM (·.toInt?)

def intsStr (l : List Int) : String := ",".intercalate (l.map toString)

def allValid (prefs : List Pref) : Bool := prefs.all fun p => 0 ≤ p.codec && p.codec ≤ 4

/-- value of `key=` in a token list -/
def field (ts : List String) (key : String) : Option String :=
  (ts.find? (·.startsWith (key ++ "="))).map fun t => (t.drop (key.length + 1)).toString

def errStr : Err → String
  | .tooLarge => "err:toolarge"
  | .xerial => "err:xerial"
  | .other => "err:other"

/-- Observation class of an implementation result token. -/
def obsOf (res : String) : Option Spec.Obs :=
  if res.startsWith "ok:" then
    match (res.drop 3).toString.splitOn ":" with
    | [n, _] => n.toNat?.map .ok
    | _ => none
  else if res.startsWith "err:" then some .err
  else if res.startsWith "panic" then some .panic
  else if res == "hang" then some .hang
  else none

structure Entry where
  off : Nat
  size : Nat
  dl : Option Nat
  decOk : Bool
  blk : Bytes
  ref : Option Bytes     -- the reference decoder's output when the library accepted the block

def parseEntries (src : A) (oracle : String) : Option (List Entry) :=
  if !oracle.startsWith "b:" then none else
  let body := (oracle.drop 2).toString
  if body == "" then some [] else
  (body.splitOn ";").mapM fun e =>
    match e.splitOn "." with
    | [o, s, dl, d] =>
      match o.toNat?, s.toNat? with
      | some o, some s =>
        let blkA := src.extract o (o + s)
        let dl' := dl.toNat?
        let ok := d == "ok"
        let ref := if ok then
            match snappyDecode (dl'.getD 0) blkA with
            | .ok out => some out.toList
            | _ => none
          else none
        some ⟨o, s, dl', ok, blkA.toList, ref⟩
      | _, _ => none
    | _ => none

def libOf (es : List Entry) (streamLen : Nat) (clean : Bool) : Lib where
  stream := fun _ _ => ⟨List.replicate streamLen 0, clean, false⟩
  snapLen := fun b => match es.find? (fun e => e.size == b.length && e.blk == b) with
    | some e => e.dl
    | none => none
  snapDec := fun b => match es.find? (fun e => e.size == b.length && e.blk == b) with
    | some e => if e.decOk then e.ref else none
    | none => none
  zstd := fun _ _ => none

def bytesRes (o : Out Bytes) : String :=
  match o with
  | .ok bs => "ok:" ++ lfA bs.toArray
  | .err e => errStr e
  | .panic => "panic"

/-- Spec verdict on a decompression result: bounded, no panic/hang, and the well-formed expectation. -/
def decVerdict (codec : Int) (max : Nat) (res : String) (want : Option String) : String :=
  if res.startsWith "pooldiff" then "0:user-pool-path-differs" else
  match obsOf res with
  | none => "0:unparsable-result"
  | some o =>
    let b := if codec == 0 then (match o with | .panic => false | .hang => false | _ => true) else Spec.boundedOk max o
    if !b then (match o with
      | .panic => "0:decompress-panic"
      | .hang => "0:decompress-hang"
      | _ => "0:decompressed-more-than-max")
    else match (if codec == 4 && max < 1024 then none else want) with   -- zstd's minimum window is 1 KiB: nothing decodes under a smaller limit
      | none => "1"
      | some w =>
        let wl := ((w.splitOn ":").head?.bind (·.toNat?)).getD 0
        if wl ≤ max || codec == 0 then (if res == "ok:" ++ w then "1" else "0:well-formed-input-not-decoded")
        else (match o with | .err => "1" | _ => "0:decompressed-more-than-max")

def step (_ : Unit) (line : String) : Unit × String :=
  let (op, impl) := splitBar line
  let it := toks impl
  let bad := ((), "bad-op | - | 0")
  match toks op with
  | ["sel", fl, pr] =>
    match parseFlags fl, parsePrefs pr with
    | some flags, some prefs =>
      let dis := disableZstd flags
      let b := build prefs
      let mout := match b with
        | .noCompressor => "nil"
        | .unknownCodec => "err"
        | .panic => "panic"
        | .comp opts => s!"opts={intsStr opts} used={choose opts dis} same={boolStr (choose opts dis == 0)}"
      let usedI : Option Int := if impl == "nil" then some 0 else (field it "used").bind (·.toInt?)
      let verdict := if !allValid prefs then "-" else
        match usedI with
        | some u => if dis && u == 4 then "0:zstd-chosen-when-disabled"
                    else if Spec.selectionOk (prefs.map Pref.codec) dis u then "1" else "0:not-first-usable-preference"
        | none => "0:unparsable-result"
      ((), s!"{mout} | {verdict} | {boolStr (prefs.length ≥ 2 || dis)}")
    | _, _ => bad
  | ["flags", v] =>
    match v.toInt? with
    | some v =>
      let m := mkCompressFlags v
      let ms := if m.isEmpty then "-" else intsStr m
      let want := if v < 7 then "1" else "-"
      ((), s!"{ms} | {boolStr (impl == want)} | {boolStr (5 ≤ v && v ≤ 8)}")
    | none => bad
  | ["rt", fl, pr, _inp, lf] =>
    match parseFlags fl, parsePrefs pr with
    | some flags, some prefs =>
      let dis := disableZstd flags
      let nt := boolStr (!lf.startsWith "0:")
      match build prefs with
      | .noCompressor => ((), s!"nil | {if allValid prefs then boolStr (Spec.firstUsable (prefs.map Pref.codec) dis == 0 && impl == "nil") else "-"} | 0")
      | .unknownCodec => ((), "err | - | 0")
      | .panic => ((), "panic | 0:model-panic | 0")
      | .comp opts =>
        let used := choose opts dis
        match it with
        | [ci, dec, ind, _xfl, comp] =>
          let indM := if used == 1 then (if ind == "na" then "na" else "ok") else "-"
          let xflM := if used == 1 then toString (gzipXfl (gzipLevel (levelOf prefs 1))) else "-"
          let compM := if used == 0 then "=" else comp
          let mout := s!"{used} ok:{lf} {indM} {xflM} {compM}"
          let origLen := ((lf.splitOn ":").head?.bind (·.toNat?)).getD 0
          let verdict :=
            match ci.toInt? with
            | none => "0:unparsable-result"
            | some c =>
              if dis && c == 4 then "0:zstd-chosen-when-disabled"
              else if !Spec.selectionOk (prefs.map Pref.codec) dis c then "0:not-first-usable-preference"
              else if dec != "ok:" ++ lf then "0:round-trip-failed"
              else if c == 0 then (if comp == "=" then "1" else "0:round-trip-failed")
              else if c == 1 then (if ind == "ok" || ind == "na" then "1" else "0:independent-gzip-decode-differs")
              else if c == 2 then
                match parseHexA comp with
                | none => "0:unparsable-result"
                | some ca => match snappyDecode origLen ca with
                  | .ok out => if lfA out == lf then "1" else "0:independent-snappy-decode-differs"
                  | _ => "0:independent-snappy-decode-differs"
              else if c == 3 then
                match parseHexA comp with
                | none => "0:unparsable-result"
                | some ca => match lz4Frame xxh32 origLen ca with
                  | .ok out => if lfA out == lf then "1" else "0:independent-lz4-decode-differs"
                  | _ => "0:independent-lz4-decode-differs"
              else "1"
          ((), s!"{mout} | {verdict} | {nt}")
        | _ => ((), s!"{used} ok:{lf} | 0:unparsable-result | {nt}")
    | _, _ => bad
  | "dec" :: c :: mx :: hx :: rest =>
    match c.toInt?, mx.toNat?, parseHexA hx, it with
    | some codec, some max, some src, [res, oracle] =>
      let want := rest.head?
      let verdict := decVerdict codec max res want
      let nt := boolStr (src.size > 0)
      if codec == 4 then ((), s!"* | {verdict} | {nt}")
      else if codec == 1 || codec == 3 then
        match oracle.splitOn ":" with
        | ["s", k, h, e] =>
          match k.toNat? with
          | some k =>
            let lib := libOf [] (min k (max + 2)) (e == "eof")
            -- at exactly max+1 bytes followed by a stream error the library decides which error surfaces
            if k == max + 1 && e != "eof" then ((), s!"* | {verdict} | {nt}") else
            let m := match decompress lib max codec [] with
              | .ok _ => s!"ok:{k}:{h}"
              | .err e => errStr e
              | .panic => "panic"
            ((), s!"{m} {oracle} | {verdict} | {nt}")
          | none => bad
        | _ => bad
      else if codec == 2 then
        match parseEntries src oracle with
        | some es =>
          if es.any (fun e => e.decOk && e.ref.isNone) then ((), s!"* | {verdict} | 0")   -- s2 accepted what snappy does not define
          else ((), s!"{bytesRes (decompress (libOf es 0 false) max codec src.toList)} {oracle} | {verdict} | {nt}")
        | none => bad
      else ((), s!"{bytesRes (decompress (libOf [] 0 false) max codec src.toList)} {oracle} | {verdict} | {nt}")
    | _, _, _, _ => bad
  | ["xd", mx, dl, hx] =>
    match mx.toNat?, dl.toInt?, parseHexA hx, it with
    | some max, some dl, some src, [res, oracle] =>
      match parseEntries src oracle with
      | some es =>
        let dst : Bytes := List.replicate dl.toNat 170
        let verdict := if src.size < 16 then "-" else decVerdict 2 max res none
        if es.any (fun e => e.decOk && e.ref.isNone) then ((), s!"* | {verdict} | 0")
        else ((), s!"{bytesRes (xerialDecode (libOf es 0 false) max dst src.toList)} {oracle} | {verdict} | {boolStr (src.size ≥ 16)}")
      | none => bad
    | _, _, _, _ => bad
  | _ => bad

def main : IO UInt32 := runLoop () step
