import Driver.Common
import FranzVerif.Gen.C24
import FranzVerif.Model.C24
/-! Sub-driver C24. Input lines `op | impl`; output `model | verdict | nontrivial`.

  err <lo> <hi> | runs        value  <ErrorForCode>/<TypedErrorForCode>, each `nil` | `code:MESSAGE:retriable` | `other:<what>`
  key <lo> <hi> | runs        value  <req>/<resp>/<NameForKey>, req/resp `none` | `key:max:Stem:KindStem` | `other:<what>`
  rel <release> <lo> <hi> | runs   value  <max>:<has>/<codec request max|none>/<codec response max|none>
  runs = `lo..hi=VALUE[,lo..hi=VALUE…]` (maximal runs of equal values over the closed int16 interval)

model   : the same runs read off the regenerated dumps `Gen.C24.errTable/keyTable/relTables`
verdict : the Spec (`errSpec`/`keySpec`/`relSpec`) evaluated on the *implementation's* runs: they must tile
          [lo,hi]; runs shorter than 64 are checked point by point, longer ones by the uniform criterion that
          `Proof.C24` shows sound for the Spec. `0:<kind>-<first offending value>` names the code / key /
          release+key.
nontrivial : a span (lo < hi), or a point within 2 of a populated table entry or of an int16 boundary. -/
open Driver Model.C24

def bs (b : Bool) : String := if b then "1" else "0"

def errResStr : ErrRes → String
  | .nil => "nil"
  | .err v => s!"{v.code}:{v.msg}:{bs v.retriable}"
  | .other w => s!"other:{w}"

def msgResStr : MsgRes → String
  | .none => "none"
  | .msg v => s!"{v.key}:{v.max}:{v.stem}:{v.kind}"
  | .other w => s!"other:{w}"

def optIntStr : Option Int → String
  | some v => toString v
  | none => "none"

def errOutStr (o : ErrOut) : String := s!"{errResStr o.efc}/{errResStr o.typed}"
def keyOutStr (o : KeyOut) : String := s!"{msgResStr o.req}/{msgResStr o.resp}/{o.name}"
def relOutStr (o : RelOut) : String := s!"{o.rel.max}:{bs o.rel.has}/{optIntStr o.reqMax}/{optIntStr o.respMax}"

/-- value at `x` and the last point up to which the table keeps that value -/
def at? {α : Type} : List (Entry α) → Int → Option (α × Int)
  | [], _ => none
  | e :: t, x => if e.lo ≤ x ∧ x ≤ e.hi then some (e.val, e.hi) else at? t x

/-- Maximal runs of `valAt` over `[lo,hi]`; `valAt x` = (printed value, last point with the same value). -/
def runsOf (valAt : Int → String × Int) (lo hi : Int) : List (Int × Int × String) :=
  let rec go (fuel : Nat) (x : Int) (acc : List (Int × Int × String)) : List (Int × Int × String) :=
    match fuel with
    | 0 => acc.reverse
    | fuel + 1 =>
      if x > hi then acc.reverse else
      let (v, upto) := valAt x
      let e := if upto < x then x else if upto > hi then hi else upto
      match acc with
      | (a, _, v') :: rest => if v' == v then go fuel (e + 1) ((a, e, v) :: rest) else go fuel (e + 1) ((x, e, v) :: acc)
      | [] => go fuel (e + 1) [(x, e, v)]
  go ((hi - lo + 1).toNat + 1) lo []

def runsStr (rs : List (Int × Int × String)) : String :=
  ",".intercalate (rs.map fun (a, b, v) => s!"{a}..{b}={v}")

def errAt (x : Int) : String × Int :=
  match at? Gen.C24.errTable x with
  | some (o, h) => (errOutStr o, h)
  | none => ("uncovered", x)

def keyAt (x : Int) : String × Int :=
  match at? Gen.C24.keyTable x with
  | some (o, h) => (keyOutStr o, h)
  | none => ("uncovered", x)

def relAt (t : List (Entry RelVal)) (x : Int) : String × Int :=
  match at? t x with
  | none => ("uncovered", x)
  | some (v, h) =>
    match at? Gen.C24.keyTable x with
    | some (o, h') => (relOutStr ⟨v, reqMaxOf o, respMaxOf o⟩, if h < h' then h else h')
    | none => (relOutStr ⟨v, none, none⟩, x)

/-! parsing the implementation's answer -/

def parseRun (s : String) : Option (Int × Int × String) :=
  match s.splitOn "=" with
  | rng :: v :: rest =>
    match rng.splitOn ".." with
    | [a, b] =>
      match a.toInt?, b.toInt? with
      | some a, some b => some (a, b, "=".intercalate (v :: rest))
      | _, _ => none
    | _ => none
  | _ => none

def parseRuns (s : String) : Option (List (Int × Int × String)) :=
  (s.splitOn ",").mapM parseRun

def parseBool? : String → Option Bool
  | "1" => some true
  | "0" => some false
  | _ => none

def parseErrRes (s : String) : Option ErrRes :=
  if s == "nil" then some .nil
  else if s.startsWith "other:" then some (.other (s.drop 6).toString)
  else match s.splitOn ":" with
    | [c, m, r] => do
      let c ← c.toInt?
      let r ← parseBool? r
      pure (.err ⟨c, m, r⟩)
    | _ => none

def parseErrOut (s : String) : Option ErrOut :=
  match s.splitOn "/" with
  | [a, b] => do pure ⟨← parseErrRes a, ← parseErrRes b⟩
  | _ => none

def parseMsgRes (s : String) : Option MsgRes :=
  if s == "none" then some .none
  else if s.startsWith "other:" then some (.other (s.drop 6).toString)
  else match s.splitOn ":" with
    | [k, m, st, kd] => do
      let k ← k.toInt?
      let m ← m.toInt?
      pure (.msg ⟨k, m, st, kd⟩)
    | _ => none

def parseKeyOut (s : String) : Option KeyOut :=
  match s.splitOn "/" with
  | [a, b, n] => do pure ⟨← parseMsgRes a, ← parseMsgRes b, n⟩
  | _ => none

def parseOptInt (s : String) : Option (Option Int) :=
  if s == "none" then some none else s.toInt?.map some

def parseRelOut (s : String) : Option RelOut :=
  match s.splitOn "/" with
  | [a, q, r] =>
    match a.splitOn ":" with
    | [m, h] => do pure ⟨⟨← m.toInt?, ← parseBool? h⟩, ← parseOptInt q, ← parseOptInt r⟩
    | _ => none
  | _ => none

/-- First point of the implementation's runs at which the Spec fails (`some none` = malformed answer). -/
def firstBad {α : Type} (parse : String → Option α) (S : Int → α → Bool) (U : Int → Int → α → Bool)
    (lo hi : Int) (impl : String) : Option (Option Int) :=
  match parseRuns impl with
  | none => some none
  | some rs =>
    match rs.mapM (fun (a, b, v) => (parse v).map fun pv => (⟨a, b, pv⟩ : Entry α)) with
    | none => some none
    | some es =>
      if !covers es lo hi then some none else
      es.findSome? fun e =>
        if e.hi - e.lo < 64 then ((span e.lo e.hi).find? fun x => !S x e.val).map some
        else if U e.lo e.hi e.val then none else some (some e.lo)

def verdictStr (kind : String) : Option (Option Int) → String
  | none => "1"
  | some none => s!"0:{kind}-malformed"
  | some (some x) => s!"0:{kind}-{x}"

def errDefault (o : ErrOut) : Bool := match o.efc with | .err v => isUnknownServerError v | _ => false
def keyDefault (o : KeyOut) : Bool := o.req == .none && o.resp == .none

/-- a point of `[lo-2, hi+2]` has a non-default model value, or the interval touches an int16 boundary -/
def nearPopulated (isDefault : Int → Bool) (lo hi : Int) : Bool :=
  decide (lo < hi) || decide (lo ≤ int16Min + 1) || decide (hi ≥ int16Max - 1) ||
  (span (lo - 2) (hi + 2)).any fun x => !isDefault x

def parseSpan (a b : String) : Option (Int × Int) :=
  match a.toInt?, b.toInt? with
  | some lo, some hi => if int16Min ≤ lo ∧ lo ≤ hi ∧ hi ≤ int16Max then some (lo, hi) else none
  | _, _ => none

def step (st : Unit) (line : String) : Unit × String :=
  let (op, impl) := splitBar line
  let out :=
    match toks op with
    | ["err", a, b] =>
      match parseSpan a b with
      | none => "bad-op | - | 0"
      | some (lo, hi) =>
        let m := runsStr (runsOf errAt lo hi)
        let v := verdictStr "err-code" (firstBad parseErrOut errSpec errUniform lo hi impl)
        let nt := nearPopulated (fun x => match lookup Gen.C24.errTable x with | some o => errDefault o | none => false) lo hi
        s!"{m} | {v} | {bs nt}"
    | ["key", a, b] =>
      match parseSpan a b with
      | none => "bad-op | - | 0"
      | some (lo, hi) =>
        let m := runsStr (runsOf keyAt lo hi)
        let v := verdictStr "key" (firstBad parseKeyOut keySpec keyUniform lo hi impl)
        let nt := nearPopulated (fun x => match lookup Gen.C24.keyTable x with | some o => keyDefault o | none => false) lo hi
        s!"{m} | {v} | {bs nt}"
    | ["rel", name, a, b] =>
      match parseSpan a b, Gen.C24.relTables.find? (·.1 == name) with
      | some (lo, hi), some (_, t) =>
        let m := runsStr (runsOf (relAt t) lo hi)
        -- the Spec sees only the implementation's answer: release value and the live codec maxima it reports
        let v := verdictStr s!"rel-{name}-key"
          (firstBad parseRelOut (fun _ o => relSpec o) (fun _ _ o => relSpec o) lo hi impl)
        let nt := nearPopulated (fun x =>
          (match lookup t x with | some v => !v.has | none => false) &&
          (match lookup Gen.C24.keyTable x with | some o => keyDefault o | none => false)) lo hi
        s!"{m} | {v} | {bs nt}"
      | _, _ => "bad-op | - | 0"
    | _ => "bad-op | - | 0"
  (st, out)

def main : IO UInt32 := runLoop () step
