import Driver.Common
import FranzVerif.Model.Idem
/-! Sub-driver C02: parses the history of `harness/cmd/sim02`, runs the monitor, reports every refused rule. -/
open Driver Model.Idem

def parseIds (s : String) : Option (List Nat) :=
  if s == "" then some [] else (s.splitOn ",").mapM (·.toNat?)

def parseEv (t : String) : Option (Option Ev) :=
  match t.splitOn ":" with
  | ["P", id, p] => do some (some (.call (← id.toNat?) (← p.toNat?)))
  | ["X", id] => do some (some (.ret (← id.toNat?)))
  | ["R", id, e, p, o] => do some (some (.promise (← id.toNat?) (e == "0") (← p.toNat?) (← o.toInt?)))
  | ["Wq", _c, n, a, p, pid, ep, sq, cnt, ids] =>
    do some (some (.wreq (← n.toNat?) (← a.toNat?) (← p.toNat?) (← pid.toNat?) (← ep.toInt?) (← sq.toNat?) (← cnt.toNat?) (← parseIds ids)))
  | ["Wr", _c, n, p, e, b, d] => do some (some (.wresp (← n.toNat?) (← p.toNat?) (← e.toInt?) (← b.toInt?) (d == "1")))
  | ["L", p, o, id] => do some (some (.logEntry (← p.toNat?) (← o.toNat?) (← id.toNat?)))
  | ["Q"] => some (some .quiesce)
  | ["Mv", _, _] => some none
  | ["FlushErr"] => some none
  | _ => none

def refusals : St → List Ev → List String → List String
  | _, [], acc => acc.reverse
  | s, e :: es, acc =>
    match check s e with
    | none => refusals (apply s e) es acc
    | some r => refusals (apply s e) es (r :: acc)

def handle (line : String) : String :=
  let (_, impl) := splitBar line
  if impl.startsWith "PANIC" || impl.startsWith "HANG" || impl.startsWith "ERR" then
    s!"* | 0:C02.scenario-{(impl.splitOn ":").head!.toLower} | 1"
  else
  match toks impl with
  | [] => "!empty | - | 0"
  | _cfg :: ets =>
    if ets.any (fun t => t == "ReadbackIncomplete" || t == "Wbad") then "* | 0:C02.harness-incomplete | 0" else
    let evs := ets.map parseEv
    if evs.any (·.isNone) then "!bad-event | - | 0" else
    let es := (evs.filterMap id).filterMap id
    let rs := refusals {} es []
    let nFail := (es.filter (fun e => match e with | .promise _ ok _ _ => !ok | _ => false)).length
    let nLost := (es.filter (fun e => match e with | .wreq _ a _ _ _ _ _ _ => a != 0 | _ => false)).length
    let nRetry := es.length - (es.eraseDups).length
    let nt := boolStr (decide (nLost > 0) || decide (nFail > 0) || decide (nRetry > 0))
    match rs with
    | [] => s!"* | 1 | {nt}"
    | _ =>
      -- report the first rule that is not the known lost-response class, else that class
      -- the most serious class first: a success promise whose record is missing, misplaced or duplicated
      let serious := ["C02.acked-record-not-in-log", "C02.acked-record-at-other-offset", "C02.record-twice-in-log", "C02.acked-records-out-of-produce-order"]
      let all := ",".intercalate rs.eraseDups
      match serious.find? (fun r => rs.contains r) with
      | some r => s!"* | 0:{r} | {nt} | {all}"
      | none => s!"* | 0:{rs.head!} | {nt} | {all}"

def main : IO UInt32 := runLoop () (fun _ line => ((), handle line))
