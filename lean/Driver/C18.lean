import Driver.Common
import FranzVerif.Model.C18
import FranzVerif.Spec.C18
/-! Sub-driver C18. Input lines `op | impl`; output `model | verdict | nontrivial`.

  req <v> <pv> <tx890p2> <acks> <timeoutMs> <limit> <batchMax> <pid> <epoch> <txn|-> <clientid> <comp> <corr> <nparts> part*
      part := <topic> <topicID> <partition> <seq> <nrecs> rec*
      rec  := <tsMillis> <key> <value> <nheaders> (<hkey> <hvalue>)*
      byte strings: `-` nil, `.` empty, hex, `~<n>x<hh>` (n copies of byte hh)
  impl / model output:
      base=<n> bmax=<..> rb=<..> e=<n> bat=<..> nreq=<k> (R <ver> <accounted> <hex>)* clog=<k> (<src> <out> <codec> <rt>)*
  The model output is computed by `Model.C18` (buffering, accounting, request building, serialisation). Two things
  are read from the implementation's output because they are nondeterministic parameters of the model: the order
  of topics and partitions inside each request (Go map iteration) and the answers of the compressor (call log).
  Verdict: `Spec.C18.spec` on the implementation's frames.

  wire <v> <limit> <nparts> <valsize> <topiclen> | frames=<k> (<len> <hex>)*
      model output `*` (which batch goes into which request depends on scheduling); verdict: every frame decodes
      strictly, the frames carry one record per partition with the produced value, and no frame exceeds the limit.

  reqlen <same arguments as req> | … nreq=<k> (R <ver> <accounted> len=<n>)*
      manual probe (never generated) for requests too large to print; verdict: every n ≤ limit. -/
open Driver
open Model.C18 (Bytes)

/-! ## CRC-32C (Castagnoli) and CRC-32 (IEEE), table driven -/

def mkTable (poly : UInt32) : Array UInt32 := Id.run do
  let mut t : Array UInt32 := Array.mkEmpty 256
  for i in [0:256] do
    let mut c : UInt32 := i.toUInt32
    for _ in [0:8] do
      c := if c &&& 1 != 0 then (c >>> 1) ^^^ poly else c >>> 1
    t := t.push c
  return t

def tblC : Array UInt32 := mkTable 0x82F63B78
def tblI : Array UInt32 := mkTable 0xEDB88320

def crcWith (t : Array UInt32) (bs : Bytes) : Nat :=
  let c := bs.foldl (fun (c : UInt32) (b : BitVec 8) =>
    (t[((c ^^^ b.toNat.toUInt32) &&& 0xFF).toNat]!) ^^^ (c >>> 8)) 0xFFFFFFFF
  (c ^^^ 0xFFFFFFFF).toNat

def crc32c : Bytes → Nat := crcWith tblC
def crc32 : Bytes → Nat := crcWith tblI

/-! ## tokens -/

def toBV (bs : List UInt8) : Bytes := bs.map fun b => BitVec.ofNat 8 b.toNat
def ofBV (bs : Bytes) : List UInt8 := bs.map fun b => UInt8.ofNat b.toNat

/-- `-` nil, `.` empty, hex, `~<n>x<hh>` -/
def parseTok (s : String) : Option (Option Bytes) :=
  if s = "-" then some none
  else if s.startsWith "~" then
    match (s.drop 1).toString.splitOn "x" with
    | [n, h] =>
      match n.toNat?, parseHex? h with
      | some n, some [b] => some (some (List.replicate n (BitVec.ofNat 8 b.toNat)))
      | _, _ => none
    | _ => none
  else (parseHex? s).map fun b => some (toBV b)

def hexOpt : Option Bytes → String
  | none => "-"
  | some b => toHex (ofBV b)

structure Cur where
  toks : Array String
  i : Nat := 0

abbrev PM := StateT Cur Option

def nextTok : PM String := do
  let c ← get
  if h : c.i < c.toks.size then
    set { c with i := c.i + 1 }
    pure c.toks[c.i]
  else failure
def nextInt : PM Int := do let t ← nextTok; match t.toInt? with | some v => pure v | none => failure
def nextNat : PM Nat := do let v ← nextInt; if v < 0 then failure else pure v.toNat
def nextBytes : PM (Option Bytes) := do let t ← nextTok; match parseTok t with | some v => pure v | none => failure
def nextBytes! : PM Bytes := do let b ← nextBytes; pure (b.getD [])

def repM {α : Type} (p : PM α) : Nat → PM (List α)
  | 0 => pure []
  | n + 1 => do let a ← p; let r ← repM p n; pure (a :: r)

structure OPart where
  topic : Bytes
  topicID : Bytes
  partition : Int
  seq : Int
  recs : List Model.C18.Rec

structure Op where
  v : Int
  pv : Int
  tx890 : Bool
  cfg : Model.C18.Cfg
  pid : Int
  epoch : Int
  comp : String
  corr : Int
  parts : List OPart

def parseRec : PM Model.C18.Rec := do
  let ts ← nextInt
  let k ← nextBytes
  let v ← nextBytes
  let nh ← nextNat
  let hs ← repM (do let hk ← nextBytes!; let hv ← nextBytes; pure (⟨hk, hv⟩ : Model.C18.Header)) nh
  pure ⟨ts, k, v, hs⟩

def parsePart : PM OPart := do
  let t ← nextBytes!
  let id ← nextBytes!
  let p ← nextInt
  let s ← nextInt
  let n ← nextNat
  let rs ← repM parseRec n
  pure ⟨t, id, p, s, rs⟩

def parseOp : PM Op := do
  let v ← nextInt
  let pv ← nextInt
  let tx ← nextInt
  let acks ← nextInt
  let timeout ← nextInt
  let limit ← nextInt
  let bmax ← nextInt
  let pid ← nextInt
  let epoch ← nextInt
  let txn ← nextBytes
  let cid ← nextBytes!
  let comp ← nextTok
  let corr ← nextInt
  let np ← nextNat
  let parts ← repM parsePart np
  let c ← get
  if c.i != c.toks.size then failure
  pure { v := v, pv := pv, tx890 := tx != 0, pid := pid, epoch := epoch, comp := comp, corr := corr, parts := parts,
         cfg := { clientId := some cid, txnId := txn, acks := acks, timeoutMs := timeout,
                  maxBrokerWriteBytes := limit, maxRecordBatchBytes := bmax } }

/-! ## the implementation's output -/

structure Impl where
  rb : List (List Int) := []
  e : Nat := 0
  frames : List (Int × Bytes) := []       -- (version, bytes)
  clog : List (Bytes × Option Bytes × Nat × String) := []

def parseIntList (s : String) (sep : Char) : List Int :=
  if s = "_" then [] else (s.split (· == sep)).toList.filterMap (·.toString.toInt?)

def parseImpl (s : String) : Option Impl := Id.run do
  let ts := (toks s).toArray
  let mut im : Impl := {}
  let mut i := 0
  let mut ok := true
  while i < ts.size do
    let t := ts[i]!
    if t.startsWith "rb=" then
      let body := (t.drop 3).toString
      im := { im with rb := if body = "_" then [] else (body.splitOn ";").map fun p => parseIntList p ',' }
      i := i + 1
    else if t.startsWith "e=" then
      im := { im with e := ((t.drop 2).toString.toNat?).getD 0 }
      i := i + 1
    else if t = "R" then
      match ts[i+1]!.toInt?, parseHex? ts[i+3]! with
      | some v, some b => im := { im with frames := im.frames ++ [(v, toBV b)] }
      | _, _ => ok := false
      i := i + 4
    else if t.startsWith "clog=" then
      let n := ((t.drop 5).toString.toNat?).getD 0
      i := i + 1
      for _ in [0:n] do
        match parseTok ts[i]!, parseTok ts[i+1]!, ts[i+2]!.toInt? with
        | some (some src), some out, some c =>
          im := { im with clog := im.clog ++ [(src, out, (if c < 0 then 255 else c.toNat), ts[i+3]!)] }
        | _, _, _ => ok := false
        i := i + 4
    else i := i + 1
  return if ok then some im else none

/-! ## model side -/

def commaInts (xs : List Int) : String :=
  if xs.isEmpty then "_" else ",".intercalate (xs.map toString)

def batStr (b : Model.C18.Batch) : String :=
  s!"{b.records.length}:{b.wireLength}:{b.v1wireLength}:{b.firstTimestamp}:{b.maxTimestampDelta}"

def zero16 : Bytes := List.replicate 16 0#8

/-- order the model's topics/partitions as the decoded frame has them; `none` when they do not correspond -/
def reorder (mine : List Model.C18.TopicBatches) (d : Spec.C18.DReq) : Option (List Model.C18.TopicBatches) :=
  let r := d.topics.mapM fun dt =>
    (mine.find? fun t => match dt.name, dt.id with
      | some n, _ => t.topic == n
      | none, some i => t.topicID == i
      | _, _ => false).bind fun t =>
      (dt.parts.mapM fun db => t.parts.find? fun pb => pb.partition == db.partition).bind fun ps =>
        if ps.length == t.parts.length then some { t with parts := ps } else none
  r.bind fun ts => if ts.length == mine.length then some ts else none

def codecOf (c : Nat) : Int := if c == 255 then -1 else c

/-- `DefaultCompressor` with `NoCompression` as the first preference is no compressor at all -/
def hasComp (op : Op) : Bool := !(op.comp = "none" || op.comp.startsWith "no+")

def runReq (op : Op) (impl : String) : String :=
  let im := (parseImpl impl).getD {}
  -- buffering
  let perPart := op.parts.map fun p =>
    let maxB := Model.C18.maxRecordBatchBytesForTopic op.cfg p.topic
    let (bs, idx) := Model.C18.bufferAll op.pv maxB [] p.recs
    (p, maxB, bs.reverse, idx)
  let base := Model.C18.baseProduceRequestLength op.cfg
  let bmax := commaInts (perPart.map fun (_, m, _, _) => m)
  let rb := if perPart.isEmpty then "_" else ";".intercalate (perPart.map fun (_, _, _, idx) => commaInts idx)
  let nrej := (perPart.map fun (_, _, _, idx) => (idx.filter (· < 0)).length).sum
  let bat := if perPart.isEmpty then "_" else ";".intercalate (perPart.map fun (_, _, bs, _) =>
    if bs.isEmpty then "_" else "/".intercalate (bs.map batStr))
  -- requests
  let rbs : List Model.C18.RecBuf := perPart.map fun (p, _, bs, _) => ⟨p.topic, p.topicID, p.partition, p.seq, bs⟩
  let nb := (perPart.map fun (_, _, bs, _) => bs.length).sum
  let reqs := Model.C18.drain op.cfg op.pv (nb + 1) 0 rbs
  let oracle : Model.C18.Compressor := fun _ src =>
    match im.clog.find? (fun (s, _, _, _) => s == src) with
    | some (_, out, c, _) => (out, c)
    | none => (none, 0)
  let env : Model.C18.Env := { crc32c := crc32c, crc32 := crc32, comp := if hasComp op then some oracle else none }
  let clogSpec : Spec.C18.CLog := im.clog.map fun (s, o, c, _) => (s, o, c)
  let decoded : List Spec.C18.DReq :=
    match Spec.C18.requests crc32c crc32 (hasComp op) clogSpec (im.frames.map (·.2)) with
    | .ok ds => ds
    | .error _ => []
  let zipped := reqs.zipIdx
  let outs := zipped.map fun (p, i) =>
    let ver := Model.C18.effectiveVersion op.cfg op.tx890 op.v p
    let order := match decoded[i]? with
      | some d => (reorder p.batches d).getD p.batches
      | none => p.batches
    let bytes := Model.C18.appendRequest env op.cfg ver op.corr op.pid op.epoch order
    let calls := if !hasComp op then [] else
      order.flatMap fun (t : Model.C18.TopicBatches) => t.parts.map fun pb => Model.C18.compressInput crc32 pb ver
    (s!" R {ver} {p.wireLength} {toHex (ofBV bytes)}", calls)
  let frames := String.join (outs.map (·.1))
  let calls := outs.flatMap (·.2)
  let clog := String.join (calls.map fun src =>
    match im.clog.find? (fun (s, _, _, _) => s == src) with
    | some (_, out, c, rt) => s!" {toHex (ofBV src)} {hexOpt out} {codecOf c} {rt}"
    | none => s!" {toHex (ofBV src)} ? ? ?")
  s!"base={base} bmax={bmax} rb={rb} e={nrej} bat={bat} nreq={reqs.length}{frames} clog={calls.length}{clog}"

/-- the Spec's view of the op, with the rejections the implementation reported -/
def expectOf (op : Op) (im : Impl) : Spec.C18.Expect :=
  { clientId := op.cfg.clientId, txn := op.cfg.txnId, acks := op.cfg.acks, timeout := op.cfg.timeoutMs, corr := op.corr,
    limit := op.cfg.maxBrokerWriteBytes, batchMax := op.cfg.maxRecordBatchBytes, pid := op.pid, epoch := op.epoch,
    parts := op.parts.zipIdx.map fun (p, i) =>
      let rbi := (im.rb[i]?).getD []
      { topic := p.topic, topicID := p.topicID, partition := p.partition, seq := p.seq,
        recs := p.recs.zipIdx.map fun (r, j) =>
          { ts := r.ts, key := r.key, value := r.value, headers := r.headers.map fun h => ⟨h.key, h.value⟩,
            rejected := decide (((rbi[j]?).getD 0) < 0) } } }

def verdictReq (op : Op) (impl : String) : String × Bool :=
  match parseImpl impl with
  | none => ("0:unparsable-output", false)
  | some im =>
    let x := expectOf op im
    let nrej := (x.parts.map fun p => (p.recs.filter (·.rejected)).length).sum
    let clogSpec : Spec.C18.CLog := im.clog.map fun (s, o, c, _) => (s, o, c)
    let nt := !im.frames.isEmpty
    if im.clog.any (fun (_, _, _, rt) => rt == "0") then ("0:codec-roundtrip", nt) else
    if im.e != nrej then ("0:rejected-without-message-too-large", nt) else
    if (match Spec.C18.requests crc32c crc32 (hasComp op) clogSpec (im.frames.map (·.2)) with
        | .ok ds => (ds.zip im.frames).any (fun (d, (v, _)) => d.version != v) | .error _ => false) then ("0:version-field", nt) else
    match Spec.C18.spec crc32c crc32 (hasComp op) clogSpec x (im.frames.map (·.2)) with
    | .ok _ => ("1", nt)
    | .error k =>
      -- the sink knew a version (pv ≥ 0) but a request was written at another one: the size accounting is for the
      -- wrong layout; these size violations are a class of their own (outside the model's assumption)
      let mismatch := decide (op.pv ≥ 0) && im.frames.any (fun (v, _) => v != op.pv)
      let k' :=
        if mismatch && (k == "flexible-produce-request-exceeds-max-write-bytes" || k == "produce-request-exceeds-max-write-bytes") then
          "request-over-limit-when-written-version-differs-from-sink-version"
        else if mismatch && (k == "message-set-exceeds-max-batch-bytes" || k == "batch-exceeds-max-batch-bytes") then
          "batch-over-max-when-written-version-differs-from-sink-version"
        else k
      ("0:" ++ k', nt)

/-! ## wire -/

def verdictWire (ts : List String) (impl : String) : String × Bool :=
  match ts with
  | [_, _v, limit, nparts, valsize, _] =>
    match limit.toInt?, nparts.toNat?, valsize.toNat? with
    | some limit, some nparts, some valsize =>
      let its := (toks impl).toArray
      let frames : List Bytes := Id.run do
        let mut fs : List Bytes := []
        let mut i := 2
        while i < its.size do
          fs := fs ++ [toBV ((parseHex? its[i]!).getD [])]
          i := i + 2
        return fs
      if !(impl.startsWith "frames=") then ("0:wire-run-failed", false) else
      match Spec.C18.requests crc32c crc32 false [] frames with
      | .error k => ("0:wire-" ++ k, true)
      | .ok ds =>
        let parts := ds.flatMap fun d => d.topics.flatMap fun t => t.parts
        let recs := parts.flatMap (·.recs)
        let want : Option Bytes := some (List.replicate valsize 0x76#8)
        if recs.length != nparts || recs.any (fun r => r.value != want) then ("0:wire-records-mismatch", true) else
        if !Spec.C18.nodup (parts.map (·.partition)) then ("0:wire-records-mismatch", true) else
        match ds.find? (fun d => (d.frameLen : Int) > limit) with
        | some d => (if d.version ≥ 9 then "0:flexible-produce-request-exceeds-max-write-bytes" else "0:produce-request-exceeds-max-write-bytes", true)
        | none => ("1", true)
    | _, _, _ => ("-", false)
  | _ => ("-", false)

def step (_ : Unit) (line : String) : Unit × String :=
  let (op, impl) := splitBar line
  let ts := toks op
  match ts with
  | "req" :: rest =>
    match (parseOp.run { toks := rest.toArray }) with
    | some (o, _) =>
      let m := runReq o impl
      let (v, nt) := verdictReq o impl
      ((), s!"{m} | {v} | {boolStr nt}")
    | none => ((), "bad-op | - | 0")
  | "wire" :: _ =>
    let (v, nt) := verdictWire ts impl
    ((), s!"* | {v} | {boolStr nt}")
  | "reqlen" :: rest =>
    -- manual probe for requests too large to print: only `R <ver> <accounted> len=<n>`; verdict: n ≤ limit
    let limit := ((rest[5]?).bind (·.toInt?)).getD 0
    let lens := (toks impl).filterMap fun t => if t.startsWith "len=" then (t.drop 4).toString.toInt? else none
    let v := if lens.isEmpty then "0:reqlen-run-failed"
             else if lens.any (· > limit) then "0:large-request-exceeds-max-write-bytes" else "1"
    ((), s!"* | {v} | {boolStr (!lens.isEmpty)}")
  | _ => ((), "bad-op | - | 0")

def main : IO UInt32 := runLoop () step
