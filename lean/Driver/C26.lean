import Driver.Common
import FranzVerif.Model.C25IO
import FranzVerif.Model.C26
/-! Sub-driver C26. Input lines `op | impl`; output `model | verdict | nontrivial`.

  sticky M T | plan # trace # plan2        coop M T | plan # trace # plan2

  M, T and plans as in Driver/C25.lean. `plan` is the sticky engine's plan (for `coop`: before AdjustCooperative),
  `plan2` the engine's plan when every member rejoins owning exactly `plan`.
  trace = `,`-separated decision events of the engine run that produced `plan` (`-` = none):
     o:m:t:p  m owns t/p after parseMemberMetadata        s:m:t:p  m is the stale claimant of t/p
     D:m:t:p  dropped from m    R:m:t:p  re-stuck to m    A:m:t:p  assigned to m
     G:src:dst:t:p  one segment of a steal path           S:m  the path for m is complete
     U:m  m gives up (no steal path)                      Z  done

  model   : the trace replayed through `Model.C26.step`; `!refused@i` when event i is refused, else the plan the
            final state stands for (must equal `plan`); trace and plan2 are echoed.
  verdict : the Spec on the real output: `validPlan plan`, `Optimal plan` (`optimalB`), stability on the input
            (priors valid and optimal → plan = priors) and on the rejoin (plan valid and optimal → plan2 = plan). -/
open Driver Model.C25 Model.C25.IO Model.C26

namespace C26D

def parseTP (t p : String) : TP := (t, p.toNat?.getD 0)

/-- events from the trace text; `none` when malformed. -/
def parseTrace (s : String) : Option (List Ev) := Id.run do
  if s == "-" || s == "" then return some []
  let mut owns : List (String × TP) := []
  let mut stl : List (String × TP) := []
  let mut evs : Array Ev := #[]
  let mut inInit := true
  let mut chain : Array (TP × String) := #[]
  let mut first : Option String := none
  let mut last : String := ""
  let mut bad := false
  for e in s.splitOn "," do
    let f := e.splitOn ":"
    match f with
    | ["o", m, t, p] => if inInit then owns := (m, parseTP t p) :: owns else bad := true
    | ["s", m, t, p] => if inInit then stl := (m, parseTP t p) :: stl else bad := true
    | _ =>
      if inInit then
        evs := evs.push (.init owns stl)
        inInit := false
      match f with
      | ["D", m, t, p] => evs := evs.push (.drop m (parseTP t p))
      | ["R", m, t, p] => evs := evs.push (.restick m (parseTP t p))
      | ["A", m, t, p] => evs := evs.push (.assign m (parseTP t p))
      | ["G", src, dst, t, p] =>
        match first with
        | none => first := some src
        | some _ => if src != last then bad := true
        last := dst
        chain := chain.push (parseTP t p, dst)
      | ["S", m] =>
        evs := evs.push (.steal m (first.getD "") chain.toList)
        chain := #[]
        first := none
      | ["U", m] => evs := evs.push (.giveup m)
      | ["Z"] => evs := evs.push .done
      | _ => bad := true
  if inInit then evs := evs.push (.init owns stl)
  if bad || !chain.isEmpty then return none
  return some evs.toList

def step (_ : Unit) (line : String) : Unit × String :=
  let (op, impl) := splitBar line
  let out :=
    match toks op, impl.splitOn " # " with
    | [kind, m, t], [plan, trace, plan2] =>
      let ms := dedupMembers (parseMembers m)
      let (topics, racks) := parseTopics t
      let c : Ctx := { members := ms, topics := topics, racks := !racks.isEmpty }
      let ids := ms.map (·.id)
      let n := cnt topics
      let nt := boolStr (ms.length ≥ 2 && totalParts ms topics ≥ 2)
      -- model: replay of the decision trace
      let replay : String :=
        match parseTrace trace with
        | none => "!malformed-trace"
        | some [] => if ms.isEmpty || c.parts.isEmpty then showPlan ids [] else "!no-trace"
        | some evs =>
          match run c {} 0 evs with
          | .error i => s!"!refused@{i}"
          | .ok s => if s.phase == 3 then showPlan ids (planOf c s.own) else "!incomplete"
      -- verdict: the Spec on the real output
      let ip := parsePlan plan
      let wf := showPlan ids ip == plan
      let valid := validPlan (subsOf ms) n ip
      let opt := optimalB ms ip
      let prior := priorPlan ms
      let stabIn := !(validPlan (subsOf ms) n prior && optimalB ms prior) || showPlan ids prior == plan
      let stabRe := !(valid && opt) || plan2 == plan
      let key := (if !wf then "malformed" else if !valid then "invalid" else if !opt then "not-optimal"
                  else if !stabIn then "moved-from-optimal-priors" else "moved-on-rejoin")
      let key := kind ++ "-" ++ key ++ (if c.racks then "-racks" else "")
      s!"{replay} # {trace} # {plan2} | {verdict (wf && valid && opt && stabIn && stabRe) key} | {nt}"
    | _, _ => "bad-op | - | 0"
  ((), out)

end C26D

def main : IO UInt32 := runLoop () C26D.step
