import Driver.Common
import FranzVerif.Model.Consumer
/-! Shared sub-driver for the `cons` scenarios (C04, C05 and the fetch half of C14). -/
namespace Driver.ConsumerHist
open Driver Model.Consumer

def parseEv (t : String) : Option (Option Ev) :=
  match t.splitOn ":" with
  | ["D", id, p, o, x] => do some (some (.produced (← id.toNat?) (← p.toNat?) (← o.toNat?) (← x.toNat?)))
  | ["Dx", _] => some (some .incomplete)
  | ["Ts", k, c] => do some (some (.endDecided (← k.toNat?) (c == "c")))
  | ["Te", k, c, r] => do some (some (.endDone (← k.toNat?) (c == "c") (r == "ok")))
  | ["Ps"] => some (some .pollStart)
  | ["Pe"] => some (some .pollEnd)
  | ["V", p, o, id, ctl] => do some (some (.returned (← p.toNat?) (← o.toNat?) (← id.toNat?) (ctl == "1")))
  | ["Hb", p, o] => do some (some (.hookBuf (← p.toNat?) (← o.toNat?)))
  | ["Hu", p, o, pl] => do some (some (.hookUnbuf (← p.toNat?) (← o.toNat?) (pl == "1")))
  | ["G", n] => do some (some (.gauge (← n.toNat?)))
  | ["Q"] => some (some .quiesce)
  | ["ERRclient"] => some (some .incomplete)
  | ["ERRbegin"] => some (some .incomplete)
  | ["ERRflush"] => some (some .incomplete)
  | ["Pa", _] => some none
  | ["Re", _] => some none
  | ["Mv", _, _] => some none
  | ["End", _, _] => some none
  | "Fr" :: _ => some none
  | "Fq" :: _ => some none
  | "Fq0" :: _ => some none
  | ["Wbad"] => some none
  | _ => none

def parseCfg (t : String) : Option Cfg :=
  match t.splitOn ":" with
  | ["cfg", _parts, c, k, s] => do some { committed := c == "1", keepCtl := k == "1", start := (← s.toNat?) }
  | _ => none

def refusals (c : Cfg) : St → List Ev → List String → List String
  | _, [], acc => acc.reverse
  | s, e :: es, acc =>
    match check c s e with
    | none => refusals c (apply c s e) es acc
    | some r => refusals c (apply c s e) es (r :: acc)

def handle (prop : String) (impl : String) : String :=
  if impl.startsWith "PANIC" || impl.startsWith "HANG" || impl.startsWith "ERR" then
    s!"* | 0:{prop}.scenario-{(impl.splitOn ":").head!.toLower} | 1"
  else
  match toks impl with
  | [] => "!empty | - | 0"
  | ct :: ets =>
    match parseCfg ct with
    | none => "!bad-cfg | - | 0"
    | some c =>
      let evs := ets.map parseEv
      if evs.any (·.isNone) then "!bad-event | - | 0" else
      let es := (evs.filterMap id).filterMap id
      -- a committed record that is never returned is a violation of C05 (read_committed visibility) and of C04
      -- (every record is returned once; only control records and aborted data may be skipped): C04 reports it too
      let rs := (refusals c {} es []).filter (fun r => r.startsWith prop || (prop == "C04" && r == "C05.committed-record-never-returned"))
      let nRet := (es.filter (fun e => match e with | .returned _ _ _ _ => true | _ => false)).length
      let nTxn := (es.filter (fun e => match e with | .endDecided _ _ => true | _ => false)).length
      let nt := boolStr (decide (nRet ≥ 10) && (decide (nTxn > 0) || !c.committed))
      match rs with
      | [] => s!"* | 1 | {nt}"
      | r :: _ => s!"* | 0:{r} | {nt}"

end Driver.ConsumerHist
