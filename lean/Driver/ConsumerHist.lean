import Driver.Common
import FranzVerif.Model.Consumer
/-! Shared sub-driver for the `cons` scenarios (C04, C05 and the fetch half of C14). -/
namespace Driver.ConsumerHist
open Driver Model.Consumer

def parseEv (t : String) : Option (Option Ev) :=
  match t.splitOn ":" with
  | ["D", id, p, o, x] => do some (some (.produced (← id.toNat?) (← p.toNat?) (← o.toNat?) (← x.toNat?)))
  | ["Dx", _] => some (some .incomplete)
  | ["Ts", k, c] => do some (some (.endDecided (← k.toNat?) (c == "c")))
  | ["Te", k, c, r] => do some (some (.endDone (← k.toNat?) (c == "c") (r == "ok")))
  | ["Ps"] => some (some .pollStart)
  | ["Pe"] => some (some .pollEnd)
  | ["V", p, o, id, ctl] => do some (some (.returned (← p.toNat?) (← o.toNat?) (← id.toNat?) (ctl == "1")))
  | ["Hb", p, o] => do some (some (.hookBuf (← p.toNat?) (← o.toNat?)))
  | ["Hu", p, o, pl] => do some (some (.hookUnbuf (← p.toNat?) (← o.toNat?) (pl == "1")))
  | ["G", n] => do some (some (.gauge (← n.toNat?)))
  | ["Q"] => some (some .quiesce)
  | ["ERRclient"] => some (some .incomplete)
  | ["ERRbegin"] => some (some .incomplete)
  | ["ERRflush"] => some (some .incomplete)
  | ["Pa", _] => some none
  | ["Re", _] => some none
  | ["Mv", _, _] => some none
  | ["End", _, _] => some none
  | "Fr" :: _ => some none
  | "Fq" :: _ => some none
  | "Fq0" :: _ => some none
  | ["Wbad"] => some none
  | _ => none

def parseCfg (t : String) : Option Cfg :=
  match t.splitOn ":" with
  | ["cfg", _parts, c, k, s] => do some { committed := c == "1", keepCtl := k == "1", start := (← s.toNat?) }
  | _ => none

def refusals (c : Cfg) : St → List Ev → List String → List String
  | _, [], acc => acc.reverse
  | s, e :: es, acc =>
    match check c s e with
    | none => refusals c (apply c s e) es acc
    | some r => refusals c (apply c s e) es (r :: acc)

/-- Does the history show the stall "a partition is never fetched again after its leader moved"? Some partition `p` whose
leader was moved (`Mv:p:_`) has an acknowledged record that no poll returned, at or beyond the offset of the LAST fetch
request that named `p` on the wire (`Fq:conn:p:off:…`), and at least 20 polls ended after that request. -/
def stalledAfterMove (ets : List String) : Bool :=
  let toks := ets.map (·.splitOn ":")
  let moved := toks.filterMap (fun t => match t with | ["Mv", p, _] => p.toNat? | _ => none)
  let returned := toks.filterMap (fun t => match t with | ["V", p, o, _, _] => (do some ((← p.toNat?), (← o.toNat?))) | _ => none)
  let produced := toks.filterMap (fun t => match t with | ["D", _, p, o, _] => (do some ((← p.toNat?), (← o.toNat?))) | _ => none)
  moved.eraseDups.any fun p =>
    -- position and offset of the last wire fetch naming p
    let idx := (toks.zipIdx.filterMap (fun (t, i) => match t with
      | ["Fq", _, q, o, _, _] => if q.toNat? == some p then o.toNat?.map (fun o => (i, o)) else none
      | _ => none)).getLast?
    match idx with
    | none => false
    | some (i, off) =>
      let pollsAfter := ((toks.drop i).filter (· == ["Pe"])).length
      decide (pollsAfter ≥ 20) && produced.any (fun d => d.1 == p && decide (d.2 ≥ off) && !returned.contains d)

def handle (prop : String) (impl : String) : String :=
  if impl.startsWith "PANIC" || impl.startsWith "HANG" || impl.startsWith "ERR" then
    s!"* | 0:{prop}.scenario-{(impl.splitOn ":").head!.toLower} | 1"
  else
  match toks impl with
  | [] => "!empty | - | 0"
  | ct :: ets =>
    match parseCfg ct with
    | none => "!bad-cfg | - | 0"
    | some c =>
      let evs := ets.map parseEv
      if evs.any (·.isNone) then "!bad-event | - | 0" else
      let es := (evs.filterMap id).filterMap id
      -- a committed record that is never returned is a violation of C05 (read_committed visibility) and of C04
      -- (every record is returned once; only control records and aborted data may be skipped): C04 reports it too
      let rs := (refusals c {} es []).filter (fun r => r.startsWith prop || (prop == "C04" && r == "C05.committed-record-never-returned"))
      let nRet := (es.filter (fun e => match e with | .returned _ _ _ _ => true | _ => false)).length
      let nTxn := (es.filter (fun e => match e with | .endDecided _ _ => true | _ => false)).length
      let nt := boolStr (decide (nRet ≥ 10) && (decide (nTxn > 0) || !c.committed))
      match rs with
      | [] => s!"* | 1 | {nt}"
      | r :: _ =>
        -- the completeness clause, told apart by how it fails: a stall after a leader move has its own key
        let r := if (r == "C05.committed-record-never-returned" || r == "C04.record-never-returned") && stalledAfterMove ets
                 then "C04.partition-never-fetched-again-after-leader-move" else r
        s!"* | 0:{r} | {nt}"

end Driver.ConsumerHist
