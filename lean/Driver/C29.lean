import Driver.Common
import FranzVerif.Gen.C29
import FranzVerif.Model.C29
/-! Sub-driver C29. Input lines `op | impl`; output `model | verdict | nontrivial`.

  inc s n | r                 model: regenerated `incrementSequence`; Spec: r = (s+n) mod 2^31
  reset | ok                  fresh producer id (fresh window); the partition log continues
  push epoch first n | resp   model: produce-handler glue + `push` with the regenerated modulus;
                              Spec: `Spec.allows` on the implementation's answer, abstract state
                              advanced by the implementation's own answers -/
open Driver Model.C29

structure St where
  win : Win := {}
  pidEpoch : Option Int := none
  hwm : Int := 0            -- model's high watermark
  spec : Spec := {}
  specHwm : Option Int := none   -- high watermark implied by the implementation's answers

def respStr : Resp → String
  | .accept => "accept"
  | .dup o => s!"dup {o}"
  | .reject => "reject"

def parseResp (ts : List String) : Option (Resp × Option Int) :=
  match ts with
  | ["accept", o] => o.toInt?.map fun v => (.accept, some v)
  | ["dup", o] => o.toInt?.map fun v => (.dup v, none)
  | ["reject"] => some (.reject, none)
  | _ => none

def step (st : St) (line : String) : St × String :=
  let (op, impl) := splitBar line
  match toks op with
  | ["inc", s, n] =>
    match s.toInt?, n.toInt? with
    | some s, some n =>
      let m := (Gen.C29.incrementSequence (BitVec.ofInt 32 s) (BitVec.ofInt 32 n)).toInt
      let want := next s n
      let v := match impl.toInt? with | some r => boolStr (r == want) | none => "0"
      let nt := boolStr (s + n ≥ seqMod - 8)
      (st, s!"{m} | {v} | {nt}")
    | _, _ => (st, "bad-op | - | 0")
  | ["reset"] => ({ st with win := {}, pidEpoch := none, spec := {} }, "ok | - | 0")
  | ["push", e, f, n] =>
    match e.toInt?, f.toInt?, n.toInt? with
    | some e, some f, some n =>
      -- glue of 00_produce.go: a stale epoch is INVALID_PRODUCER_EPOCH (47), a newer one is recorded
      let stale := match st.pidEpoch with | some pe => decide (e < pe) | none => false
      if stale then (st, "err 47 | - | 0") else
      let (w', r) := push Gen.C29K.kfakeSeqMod st.win e f n st.hwm
      let mout := match r with | .accept => s!"accept {st.hwm}" | r => respStr r
      let hwm' := if r == .accept then st.hwm + n else st.hwm
      -- Spec on the implementation's answer
      let (verdict, spec', shwm') :=
        match parseResp (toks impl) with
        | some (ri, off) =>
          let okOff := match ri, off, st.specHwm with
            | .accept, some o, some h => o == h
            | _, _, _ => true
          let ok := st.spec.allows e f n ri && okOff
          let base := match off with | some o => o | none => 0
          let sh := match ri, off with | .accept, some o => some (o + n) | _, _ => st.specHwm
          let key := if ok then "" else ":kfake-seq"
          ((if ok then "1" else "0") ++ key, st.spec.step e f n base ri, sh)
        | none => ("-", st.spec, st.specHwm)
      let nt := boolStr (decide (f + n ≥ seqMod - 64) || r != .accept)
      ({ win := w', pidEpoch := some e, hwm := hwm', spec := spec', specHwm := shwm' }, s!"{mout} | {verdict} | {nt}")
    | _, _, _ => (st, "bad-op | - | 0")
  | _ => (st, "bad-op | - | 0")

def main : IO UInt32 := runLoop ({} : St) step
