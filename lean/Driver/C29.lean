import Driver.Common
import FranzVerif.Gen.C29
import FranzVerif.Model.C29
import FranzVerif.Model.C29Client
/-! Sub-driver C29. Input lines `op | impl`; output `model | verdict | nontrivial`.

  inc s n | r                 model: regenerated `incrementSequence`; Spec: r = (s+n) mod 2^31
  reset | ok                  fresh producer id (fresh window); the partition log continues
  push epoch first n | resp   model: produce-handler glue + `push` with the regenerated modulus;
                              Spec: `Spec.allows` on the implementation's answer, abstract state
                              advanced by the implementation's own answers
  scen start … | h events…    a history of the REAL client against the real kfake (harness/cmd/c29/scen.go);
                              model output `*` (batching and re-sends depend on timing); Spec = the chain monitor
                              `Model.C29C.LMon` (the arrival form of `Mon`) over every produce batch that reached the broker side, the kfake
                              window spec `Spec.allows` over every answer, and the end-state checks (no data-loss
                              report, epoch bump or failed record without a broker-side reason; log = every record
                              exactly once, in order). Verdict keys: client-seq-chain, kfake-seq, client-dataloss,
                              log, client-stuck, scen-setup. -/
open Driver Model.C29

structure St where
  win : Win := {}
  pidEpoch : Option Int := none
  hwm : Int := 0            -- model's high watermark
  spec : Spec := {}
  specHwm : Option Int := none   -- high watermark implied by the implementation's answers

def respStr : Resp → String
  | .accept => "accept"
  | .dup o => s!"dup {o}"
  | .reject => "reject"

def parseResp (ts : List String) : Option (Resp × Option Int) :=
  match ts with
  | ["accept", o] => o.toInt?.map fun v => (.accept, some v)
  | ["dup", o] => o.toInt?.map fun v => (.dup v, none)
  | ["reject"] => some (.reject, none)
  | _ => none


/-! ### scenarios (real client x real kfake) -/

structure Scen where
  start : Int
  mon : Model.C29C.LMon := {}
  bad : Option String := none
  spec : Spec := {}
  hwm : Int := 0
  reqs : List (Int × (Int × Int × Int)) := []
  /-- requests handed to kfake whose answer has not been seen (arrival order); kfake may have handled them
  although the answer never made it onto a connection that was cut meanwhile -/
  unanswered : List (Int × (Int × Int × Int)) := []
  /-- such requests that a later answer showed to have been appended (request, base offset) -/
  absorbed : List (Int × Int) := []
  rejects : Nat := 0
  dls : Nat := 0
  firstEpoch : Option Int := none
  crossed : Bool := false
  resend : Bool := false
  nq : Nat := 0
  pf : Option Int := none
  ep : Option Int := none
  want : Option Int := none
  log : Option String := none
  ended : Bool := false

def Scen.flag (s : Scen) (k : String) : Scen := if s.bad.isSome then s else { s with bad := some k }

def ints (l : List String) : Option (List Int) := l.mapM (·.toInt?)

/-- error codes after which the client legitimately gives up its sequence chain (new epoch / data loss report):
OUT_OF_ORDER_SEQUENCE_NUMBER, INVALID_PRODUCER_EPOCH, INVALID_PRODUCER_ID_MAPPING, UNKNOWN_PRODUCER_ID -/
def seqErr (e : Int) : Bool := e == 45 || e == 47 || e == 49 || e == 59

def Scen.ev (s : Scen) (tok : String) : Scen :=
  match tok.splitOn ":" with
  | ["st", a, b] =>
    if a.toInt? == some s.start && b.toInt? == some s.start then s else s.flag "scen-setup"
  | ["q", rq, act, e, f, n, _rid] =>
    match ints [rq, act, e, f, n] with
    | some [rq, act, e, f, n] =>
      let isResend := s.mon.started && e == s.mon.epoch && f != s.mon.nextSeq && s.mon.chain.contains (f, n)
      let s := { s with nq := s.nq + 1, firstEpoch := s.firstEpoch <|> some e,
                        crossed := s.crossed || decide (f + n ≥ Model.C29C.seqMod), resend := s.resend || isResend,
                        reqs := if act == 1 then s.reqs else (rq, (e, f, n)) :: s.reqs,
                        unanswered := if act == 1 then s.unanswered else s.unanswered ++ [(rq, (e, f, n))] }
      match s.mon.step (.batch e f n) with
      | some m => { s with mon := m }
      | none => s.flag "client-seq-chain"
    | _ => s.flag "scen-setup"
  | ["r", rq, err, base, deliv] =>
    match ints [rq, err, base, deliv] with
    | some [rq, err, base, deliv] =>
      match s.reqs.lookup rq with
      | none => s.flag "scen-setup"
      | some (e, f, n) =>
        -- an append beyond the known end of the log: earlier requests whose answers were lost with their connection
        -- were appended by kfake; they are accounted for in arrival order as far as the spec allows an accept
        let earlier := s.unanswered.takeWhile (fun u => u.1 != rq)
        let s := if err == 0 && base > s.hwm then
            earlier.foldl (fun s u =>
              let (urq, (ue, uf, un)) := u
              if s.hwm < base && uf ≥ 0 && un ≥ 1 && s.hwm + un ≤ base && s.spec.allows ue uf un .accept then
                { s with spec := s.spec.step ue uf un s.hwm .accept, hwm := s.hwm + un, absorbed := (urq, s.hwm) :: s.absorbed,
                         unanswered := s.unanswered.filter (fun v => v.1 != urq) }
              else s) s
          else s
        let s := { s with unanswered := s.unanswered.filter (fun v => v.1 != rq) }
        -- the broker's answer against the window spec (only for requests the spec speaks about)
        let ri : Option Resp :=
          if f < 0 || n < 1 then none
          else if err == 0 && s.absorbed.contains (rq, base) then none   -- already accounted for as an append at this offset
          else if err == 0 then some (if base == s.hwm then .accept else .dup base)
          else if err == 45 then some .reject else none
        let s := match ri with
          | none => s
          | some ri =>
            let s := if s.spec.allows e f n ri then s else s.flag "kfake-seq"
            { s with spec := s.spec.step e f n base ri, hwm := if ri == .accept then s.hwm + n else s.hwm }
        if seqErr err && deliv == 1 then
          { s with rejects := s.rejects + 1, mon := (s.mon.step .reset).getD s.mon }
        else s
    | _ => s.flag "scen-setup"
  | ["dl"] => { s with dls := s.dls + 1 }
  | ["mv", _] => s
  | ["pf", k] => { s with pf := k.toInt? }
  | ["ep", k] => { s with ep := k.toInt? }
  | ["want", k] => { s with want := k.toInt? }
  | ["log", l] => { s with log := some l }
  | ["Q"] => { s with ended := true }
  | "ERR" :: what :: _ => s.flag (if what == "records-not-acknowledged" then "client-stuck" else "scen-setup")
  | _ => s.flag "scen-setup"

def Scen.finish (s : Scen) : Scen :=
  let bumped := s.ep != s.firstEpoch && s.firstEpoch.isSome
  if s.bad.isSome then s
  else if !s.ended then s.flag "scen-setup"
  else if s.dls > s.rejects then s.flag "client-dataloss"
  else if bumped && s.rejects == 0 then s.flag "client-dataloss"
  else if bumped || s.dls > 0 then s   -- the broker gave a reason: what the client does then is not this property's business
  -- every record was delivered under one epoch: no batch is left aside that the chain never reached
  else if !s.mon.done then s.flag "client-seq-chain"
  else if s.pf != some 0 then s.flag "client-dataloss"
  else
    match s.want with
    | none => s.flag "scen-setup"
    | some w =>
      let expect := if w == 0 then "-" else s!"0-{w - 1}"
      if s.log == some expect then s else s.flag "log"

def scenLine (opToks : List String) (impl : String) : String :=
  match opToks with
  | _ :: start :: _ =>
    match start.toInt? with
    | none => "bad-op | - | 0"
    | some st =>
      match toks impl with
      | "h" :: evs =>
        let s := (evs.foldl Scen.ev { start := st, mon := Model.C29C.LMon.init st : Scen }).finish
        let v := match s.bad with | none => "1" | some k => "0:" ++ k
        s!"* | {v} | {boolStr (s.crossed && s.resend)}"
      | ["hang"] => "* | 0:client-stuck | 0"
      | _ => "* | 0:scen-setup | 0"
  | _ => "bad-op | - | 0"

def step (st : St) (line : String) : St × String :=
  let (op, impl) := splitBar line
  match toks op with
  | ["inc", s, n] =>
    match s.toInt?, n.toInt? with
    | some s, some n =>
      let m := (Gen.C29.incrementSequence (BitVec.ofInt 32 s) (BitVec.ofInt 32 n)).toInt
      let want := next s n
      let v := match impl.toInt? with | some r => boolStr (r == want) | none => "0"
      let nt := boolStr (s + n ≥ seqMod - 8)
      (st, s!"{m} | {v} | {nt}")
    | _, _ => (st, "bad-op | - | 0")
  | ["reset"] => ({ st with win := {}, pidEpoch := none, spec := {} }, "ok | - | 0")
  | ["push", e, f, n] =>
    match e.toInt?, f.toInt?, n.toInt? with
    | some e, some f, some n =>
      -- glue of 00_produce.go: a stale epoch is INVALID_PRODUCER_EPOCH (47), a newer one is recorded
      let stale := match st.pidEpoch with | some pe => decide (e < pe) | none => false
      if stale then (st, "err 47 | - | 0") else
      let (w', r) := push Gen.C29K.kfakeSeqMod st.win e f n st.hwm
      let mout := match r with | .accept => s!"accept {st.hwm}" | r => respStr r
      let hwm' := if r == .accept then st.hwm + n else st.hwm
      -- Spec on the implementation's answer
      let (verdict, spec', shwm') :=
        match parseResp (toks impl) with
        | some (ri, off) =>
          let okOff := match ri, off, st.specHwm with
            | .accept, some o, some h => o == h
            | _, _, _ => true
          let ok := st.spec.allows e f n ri && okOff
          let base := match off with | some o => o | none => 0
          let sh := match ri, off with | .accept, some o => some (o + n) | _, _ => st.specHwm
          let key := if ok then "" else ":kfake-seq"
          ((if ok then "1" else "0") ++ key, st.spec.step e f n base ri, sh)
        | none => ("-", st.spec, st.specHwm)
      let nt := boolStr (decide (f + n ≥ seqMod - 64) || r != .accept)
      ({ win := w', pidEpoch := some e, hwm := hwm', spec := spec', specHwm := shwm' }, s!"{mout} | {verdict} | {nt}")
    | _, _, _ => (st, "bad-op | - | 0")
  | "scen" :: _ => (st, scenLine (toks op) impl)
  | _ => (st, "bad-op | - | 0")

def main : IO UInt32 := runLoop ({} : St) step
