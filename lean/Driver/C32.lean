import Driver.Common
import FranzVerif.Model.C32
import FranzVerif.Spec.C32
/-! Sub-driver C32. Input lines `op | impl ; bounds`; output `model ; bounds | verdict | nontrivial`.

The model output is `Model.C32.step` rendered like the harness renders kfake's answers (for a fetch
whose session has several partitions that the request does not name, kfake walks them in Go map
order: every order is tried and the one that reproduces the implementation's answer is taken).
The verdict is `Spec.C32.specStep` on the implementation's answer and bounds. -/
open Driver Model.C32 Spec.C32

structure St where
  m : State := {}
  sp : SSt := {}
  np : Nat := 0
  /-- the rest of the case is not judged: two transactions timed out within 3 ms of each other (see `nearTie`) -/
  skip : Bool := false

/-- Two transactions that expire in one pass of the broker's timer with expiry times less than 3 ms apart. The model's
and the spec's clock advance only with sleeps and fetch waits (whole milliseconds), the broker's with real time: which
of the two abort markers is written first then depends on sub-millisecond scheduling, and the property does not say. -/
def nearTie (sp : SSt) (now' : Int) : Bool :=
  let c := sp.prods.filterMap (fun e => match e.2.started with
    | some t => if t + e.2.timeout ≤ now' + 2 then some (t + e.2.timeout) else none
    | none => none)
  c.zipIdx.any (fun (x, i) => (c.drop (i + 1)).any (fun y => decide ((x - y).natAbs < 3)))

def joinWith (sep : String) (xs : List String) : String := sep.intercalate xs

def renderBatch (b : Batch) : String :=
  let fl := if b.ctl then (if b.commit then "C" else "A") else if b.txn then "t" else "d"
  s!"{b.first}.{b.n}.{b.pid}.{b.epoch}.{b.seq}.{fl}.{b.nbytes}"

def renderPResp (r : PResp) : String :=
  let bs := if r.batches.isEmpty then "-" else joinWith "+" (r.batches.map renderBatch)
  let ab := if r.aborted.isEmpty then "-" else joinWith "+" (r.aborted.map (fun a => s!"{a.1}@{a.2}"))
  s!"{r.p}:{r.code}:{r.hwm}:{r.lso}:{r.logStart}:{bs}:{ab}"

def insertBy {α : Type} (key : α → Nat) (x : α) : List α → List α
  | [] => [x]
  | y :: r => if key x ≤ key y then x :: y :: r else y :: insertBy key x r

def sortBy {α : Type} (key : α → Nat) (xs : List α) : List α := xs.foldr (insertBy key) []

def renderOut : Out → String
  | .codeVal c v => s!"{c} {v}"
  | .addp r => joinWith " " ((sortBy (·.1) r).map (fun e => s!"{e.1}:{e.2}"))
  | .prod c b l => s!"{c} {b} {l}"
  | .ok => "ok"
  | .fetch el e sid ps => (s!"{el} {e} {sid} " ++ joinWith " " ((sortBy (·.p) ps).map renderPResp)).trimAscii.toString

def renderBounds (s : State) : String :=
  joinWith " " (s.parts.map (fun pd => s!"{pd.logStart}/{pd.lso}/{pd.hwm}"))

def parseNat? (s : String) : Option Nat := s.toNat?

def parseList (s : String) (sep : Char) : List String :=
  if s == "-" then [] else (s.splitOn (String.singleton sep)).filter (· ≠ "")

def parseBatch (s : String) : Option Batch :=
  match s.splitOn "." with
  | [f, n, k, e, q, fl, sz] =>
    match f.toInt?, n.toInt?, k.toInt?, e.toInt?, q.toInt?, sz.toInt? with
    | some f, some n, some k, some e, some q, some sz =>
      match fl with
      | "d" => some ⟨f, n, k, e, q, false, false, false, sz⟩
      | "t" => some ⟨f, n, k, e, q, true, false, false, sz⟩
      | "C" => some ⟨f, n, k, e, q, true, true, true, sz⟩
      | "A" => some ⟨f, n, k, e, q, true, true, false, sz⟩
      | _ => none
    | _, _, _, _, _, _ => none
  | _ => none

def allSome {α : Type} : List (Option α) → Option (List α)
  | [] => some []
  | none :: _ => none
  | some x :: r => (allSome r).map (x :: ·)

def parsePResp (s : String) : Option PResp :=
  match s.splitOn ":" with
  | [p, c, h, l, g, bs, ab] =>
    match p.toNat?, c.toInt?, h.toInt?, l.toInt?, g.toInt? with
    | some p, some c, some h, some l, some g =>
      match allSome ((parseList bs '+').map parseBatch),
            allSome ((parseList ab '+').map (fun a => match a.splitOn "@" with
              | [k, f] => match k.toInt?, f.toInt? with | some k, some f => some (k, f) | _, _ => none
              | _ => none)) with
      | some bs, some ab => some ⟨p, c, h, l, g, bs, ab⟩
      | _, _ => none
    | _, _, _, _, _ => none
  | _ => none

def parseBounds (s : String) : Option (List Bounds) :=
  allSome ((toks s).map (fun t => match t.splitOn "/" with
    | [a, b, c] => match a.toInt?, b.toInt?, c.toInt? with | some a, some b, some c => some ⟨a, b, c⟩ | _, _, _ => none
    | _ => none))

def parseFReqs (s : String) : Option (List FReq) :=
  allSome ((parseList s ',').map (fun t => match t.splitOn ":" with
    | [p, o, m] => match p.toNat?, o.toInt?, m.toInt? with | some p, some o, some m => some ⟨p, o, m⟩ | _, _, _ => none
    | _ => none))

def parseOp (ts : List String) : Option Op :=
  match ts with
  | ["initx", k, t] => do some (.initx (← k.toInt?) (← t.toInt?))
  | ["initr", k, e] => do some (.initr (← k.toInt?) (← e.toInt?))
  | ["addp", k, e, ps] => do some (.addp (← k.toInt?) (← e.toInt?) (← allSome ((parseList ps ',').map parseNat?)))
  | ["prod", c, k, e, q, n, nb, p, tx] =>
    do some (.prod (c == "n") (← k.toInt?) (← e.toInt?) (← q.toInt?) (← n.toInt?) (← nb.toInt?) (← p.toNat?) (tx == "1"))
  | ["end", c, k, e, cm] => do some (.endt (c == "n") (← k.toInt?) (← e.toInt?) (cm == "1"))
  | ["del", p, o] => do some (.del (← p.toNat?) (← o.toInt?))
  | ["sleep", ms] => do some (.sleep (← ms.toInt?))
  | ["move", p, b] => do some (.move (← p.toNat?) (← b.toNat?))
  | ["via", b] => do some (.via (← b.toNat?))
  | ["fetch", c, iso, mb, sid, se, ps, fg] =>
    do some (.fetch ⟨c == "n", iso == "1", ← mb.toInt?, ← sid.toInt?, ← se.toInt?, ← parseFReqs ps,
                     ← allSome ((parseList fg ',').map parseNat?), 0, 0⟩ [])
  | ["fetch", c, iso, mb, sid, se, ps, fg, minb, wait] =>
    do some (.fetch ⟨c == "n", iso == "1", ← mb.toInt?, ← sid.toInt?, ← se.toInt?, ← parseFReqs ps,
                     ← allSome ((parseList fg ',').map parseNat?), ← minb.toInt?, ← wait.toInt?⟩ [])
  | _ => none

def parseOut (op : Op) (ts : List String) : Option Out :=
  match op, ts with
  | .sleep _, ["ok"] => some .ok
  | .move .., ["ok"] => some .ok
  | .via _, ["ok"] => some .ok
  | .addp .., ts => (allSome (ts.map (fun t => match t.splitOn ":" with
      | [p, c] => match p.toNat?, c.toInt? with | some p, some c => some (p, c) | _, _ => none
      | _ => none))).map Out.addp
  | .prod .., [c, b, l] => do some (.prod (← c.toInt?) (← b.toInt?) (← l.toInt?))
  | .fetch .., el :: e :: sid :: ps => do some (.fetch (← el.toInt?) (← e.toInt?) (← sid.toInt?) (← allSome (ps.map parsePResp)))
  | .initx .., [c, v] => do some (.codeVal (← c.toInt?) (← v.toInt?))
  | .initr .., [c, v] => do some (.codeVal (← c.toInt?) (← v.toInt?))
  | .endt .., [c, v] => do some (.codeVal (← c.toInt?) (← v.toInt?))
  | .del .., [c, v] => do some (.codeVal (← c.toInt?) (← v.toInt?))
  | _, _ => none

def permsF : Nat → List Nat → List (List Nat)
  | 0, _ => [[]]
  | _, [] => [[]]
  | f + 1, xs => xs.flatMap (fun x => (permsF f (xs.filter (· != x))).map (x :: ·))

def perms (xs : List Nat) : List (List Nat) := permsF xs.length xs

def splitSemi (s : String) : String × String :=
  match s.splitOn " ; " with
  | [a, b] => (a.trimAscii.toString, b.trimAscii.toString)
  | [a] => if a.startsWith "; " then ("", (a.drop 2).toString.trimAscii.toString) else (a.trimAscii.toString, "")
  | _ => (s, "")

def step (st : St) (line : String) : St × String :=
  let (opS, impl) := splitBar line
  match toks opS with
  | ["reset", n] =>
    let np := n.toNat?.getD 1
    ({ m := Model.C32.init np, sp := sinit np, np := np }, "ok | - | 0")
  | ["reset", n, b] =>
    let np := n.toNat?.getD 1
    ({ m := Model.C32.init np (b.toNat?.getD 1), sp := sinit np, np := np }, "ok | - | 0")
  | ts =>
    if st.skip then (st, "* | 1 | 0") else
    match parseOp ts with
    | none => (st, "bad-op | - | 0")
    | some op =>
      let (implOut, implBounds) :=
        if impl.startsWith "; " then ("", (impl.drop 2).toString.trimAscii.toString) else splitSemi impl
      -- model
      let cands : List Op := match op with
        | .fetch f _ => (perms (List.range (st.np + 1))).map (fun o => Op.fetch f o)
        | o => [o]
      let rendered := cands.map (fun o => let r := Model.C32.step st.m o; (r.1, renderOut r.2 ++ " ; " ++ renderBounds r.1))
      let pick := match rendered.find? (fun r => r.2 == impl) with
        | some r => r
        | none => rendered.headD (st.m, "?")
      -- spec on the implementation's answer
      let (sp', verdict) :=
        match parseOut op (toks implOut), parseBounds implBounds with
        | some out, some nb =>
          if nb.length != st.np then (st.sp, "0:no-answer") else
          let r := specStep st.sp op out nb
          (r.1, match r.2 with | none => "1" | some k => "0:" ++ k)
        | _, _ => (st.sp, if impl.startsWith "HANG" then "0:hang" else if impl.startsWith "PANIC" || impl.startsWith "panic" then "0:panic" else "0:no-answer")
      let nt := boolStr (pick.1.parts.any (fun pd => pd.hwm > 0))
      if nearTie st.sp sp'.now then ({ st with skip := true }, "* | 1 | 0") else
      ({ st with m := pick.1, sp := sp' }, s!"{pick.2} | {verdict} | {nt}")

def main : IO UInt32 := runLoop ({} : St) step
