import Driver.Common
import FranzVerif.Model.C38
/-! Sub-driver C38. Input lines `op | impl`; output `model | verdict | nontrivial`.

  fx <lim> <shape tokens…>
     shape tokens:  F                      a new fetch
                    T _<name> <id>         a new topic in the last fetch (name after the `_`, id decimal, 0 = zero ID)
                    P <num> <err> <n> r1 … rn   a new partition in the last topic (err 0 = nil) with n record ids
  impl / model output (one token each):
     iter= all= brk= each= recs=  record-id lists (`~` empty, else comma separated)
     num= empty=
     parts=    `_name/num/err/recs` joined by `;`
     topics=   `_name/id/` + parts (`num:err:recs` joined by `|`, `~` none), joined by `;`; sorted by name when
               there are ≥ 2 fetches (Go map order)
     errors= eacherr=   `_name/num/err` joined by `;`
     err= err0= closed=

Verdict = `Model.C38.spec` on the implementation's output (`0:<first failing clause>`). -/
open Driver Model.C38

partial def parseShape : List String → Fetches → Option Fetches
  | [], acc => some acc
  | "F" :: rest, acc => parseShape rest (acc ++ [[]])
  | "T" :: name :: id :: rest, acc =>
    match acc.getLast?, id.toNat? with
    | some f, some idn =>
      if name.startsWith "_" then
        parseShape rest (acc.dropLast ++ [f ++ [⟨(name.drop 1).toString, idn, []⟩]])
      else none
    | _, _ => none
  | "P" :: num :: err :: n :: rest, acc =>
    match acc.getLast?, num.toInt?, err.toNat?, n.toNat? with
    | some f, some numi, some errn, some nn =>
      match f.getLast? with
      | some t =>
        let rs := (rest.take nn).filterMap String.toInt?
        if rs.length ≠ nn then none else
        parseShape (rest.drop nn) (acc.dropLast ++ [f.dropLast ++ [{ t with parts := t.parts ++ [⟨numi, errn, rs⟩] }]])
      | none => none
    | _, _, _, _ => none
  | _, _ => none

def fmtInts (xs : List Int) : String := if xs.isEmpty then "~" else ",".intercalate (xs.map toString)
def joinOr (sep : String) (xs : List String) : String := if xs.isEmpty then "~" else sep.intercalate xs

def fmtParts (ps : List (String × Part)) : String :=
  joinOr ";" (ps.map fun (n, p) => s!"_{n}/{p.num}/{p.err}/{fmtInts p.recs}")

def fmtTopic (t : Topic) : String :=
  s!"_{t.name}/{t.id}/" ++ joinOr "|" (t.parts.map fun p => s!"{p.num}:{p.err}:{fmtInts p.recs}")

def fmtErrs (es : List (String × Int × Nat)) : String :=
  joinOr ";" (es.map fun (n, num, e) => s!"_{n}/{num}/{e}")

/-- stable insertion sort by topic name -/
def sortTopics (ts : List Topic) : List Topic :=
  ts.foldl (fun acc t =>
    let (lo, hi) := acc.span (fun x => x.name ≤ t.name)
    lo ++ t :: hi) []

def canonTopics (nf : Nat) (ts : List Topic) : List Topic := if nf ≥ 2 then sortTopics ts else ts

def parseInts (s : String) : Option (List Int) :=
  if s = "~" then some [] else (s.splitOn ",").mapM String.toInt?

def parseSep {α : Type} (sep : String) (f : String → Option α) (s : String) : Option (List α) :=
  if s = "~" then some [] else (s.splitOn sep).mapM f

def unName (s : String) : Option String := if s.startsWith "_" then some (s.drop 1).toString else none

def parsePartEntry (s : String) : Option (String × Part) :=
  match s.splitOn "/" with
  | [n, num, e, rs] => do pure ((← unName n), ⟨← num.toInt?, ← e.toNat?, ← parseInts rs⟩)
  | _ => none

def parseTopicEntry (s : String) : Option Topic :=
  match s.splitOn "/" with
  | [n, id, ps] => do
    let parts ← parseSep "|" (fun x => match x.splitOn ":" with
      | [num, e, rs] => do pure (⟨← num.toInt?, ← e.toNat?, ← parseInts rs⟩ : Part)
      | _ => none) ps
    pure ⟨← unName n, ← id.toNat?, parts⟩
  | _ => none

def parseErrEntry (s : String) : Option (String × Int × Nat) :=
  match s.splitOn "/" with
  | [n, num, e] => do pure ((← unName n), (← num.toInt?), (← e.toNat?))
  | _ => none

def field (pfx : String) (ts : List String) : Option String :=
  (ts.find? (·.startsWith pfx)).map fun t => (t.drop pfx.length).toString

def parseObs (ts : List String) : Option Obs := do
  let iter ← (← field "iter=" ts) |> parseInts
  let all ← (← field "all=" ts) |> parseInts
  let brk ← (← field "brk=" ts) |> parseInts
  let each ← (← field "each=" ts) |> parseInts
  let recs ← (← field "recs=" ts) |> parseInts
  let num ← (← field "num=" ts) |>.toNat?
  let empty ← (← field "empty=" ts) |> fun s => if s = "1" then some true else if s = "0" then some false else none
  let parts ← (← field "parts=" ts) |> parseSep ";" parsePartEntry
  let topics ← (← field "topics=" ts) |> parseSep ";" parseTopicEntry
  let errors ← (← field "errors=" ts) |> parseSep ";" parseErrEntry
  let eacherr ← (← field "eacherr=" ts) |> parseSep ";" parseErrEntry
  pure ⟨iter, all, brk, each, recs, num, empty, parts, topics, errors, eacherr⟩

/-- name of the first clause of `spec` that fails -/
def failing (fs : Fetches) (lim : Nat) (o : Obs) : String :=
  if o.iter != flatten fs then "iter-order"
  else if o.all != o.iter then "recordsall"
  else if o.each != o.iter then "eachrecord"
  else if o.recs != o.iter then "records"
  else if o.allBrk != (if lim = 0 then o.iter else o.iter.take lim) then "recordsall-break"
  else if o.num != o.iter.length then "numrecords"
  else if o.empty != (o.num == 0) then "empty"
  else if o.parts != inputParts fs then "eachpartition"
  else if !specEachTopic fs o.topics then "eachtopic"
  else if o.errors != errParts fs then "errors"
  else if o.eachError != errParts fs then "eacherror"
  else "spec"

def fmtRun (fs : Fetches) (lim : Nat) : String :=
  match run fs lim with
  | .error .panic => "panic"
  | .error .outOfFuel => "out-of-fuel"
  | .ok o =>
    s!"iter={fmtInts o.iter} all={fmtInts o.all} brk={fmtInts o.allBrk} each={fmtInts o.each} recs={fmtInts o.recs} " ++
    s!"num={o.num} empty={boolStr o.empty} parts={fmtParts o.parts} " ++
    s!"topics={joinOr ";" ((canonTopics fs.length o.topics).map fmtTopic)} " ++
    s!"errors={fmtErrs o.errors} eacherr={fmtErrs o.eachError} " ++
    s!"err={err fs} err0={err0 fs} closed={boolStr (isClientClosed fs)}"

def step (_ : Unit) (line : String) : Unit × String :=
  let (op, impl) := splitBar line
  match toks op with
  | "fx" :: lim :: shape =>
    match lim.toNat?, parseShape shape [] with
    | some lim, some fs =>
      let m := fmtRun fs lim
      let v := match parseObs (toks impl) with
        | some o => if spec fs lim o then "1" else "0:" ++ failing fs lim o
        | none => "0:no-observation"
      let nparts := (inputParts fs).length
      ((), s!"{m} | {v} | {boolStr (nparts ≥ 2)}")
    | _, _ => ((), "bad-op | - | 0")
  | _ => ((), "bad-op | - | 0")

def main : IO UInt32 := runLoop () step
