import Driver.ConsumerHist
def main : IO UInt32 := Driver.runLoop () (fun _ line => ((), Driver.ConsumerHist.handle "C04" (Driver.splitBar line).2))
