import Driver.Common
import FranzVerif.Model.StartOff
/-! Sub-driver for the `off` scenarios (C40 start offsets resolve as documented).

input line:  `off <seed> <committed> <how> <kind> <a> <b> <epoch> <txnmode> <delpct> <disorder> | cfg:<committed> <events>`
events:      R:off:ts:batch:txn  T:txn:c|a  Del:to  S:start:lso:hwm  Cm:off  O:kind:x:r:epoch:t  E:class  N  F:off|F:none  L:off:ts:ctl  Q
output line: `* | verdict | nontrivial`   (the history is nondeterministic in its timestamps; the verdict carries the check)

The verdict is the first `C40.` rule the monitor `Model.StartOff` refuses. A refusal of the position rule is given a
more specific stable key when the returned record is explained by a known deviation of the code:
  * `C40.aftermilli-kfake-picks-last-le`: the record is what follows the position kfake's ListOffsets handler computes —
    in the first batch whose max timestamp is ≥ t, the LAST record with timestamp ≤ t (the batch's first record when
    there is none) — instead of the first record with timestamp ≥ t;
  * `C40.aftermilli-kfake-binary-search-unsorted-timestamps`, `C40.aftermilli-kfake-answers-below-log-start`,
    `C40.exact-beyond-end-restarts-at-reset-offset`, `C40.exact-above-lso-kept-under-read-committed`,
    `C40.exact-with-epoch-beyond-end-uses-high-watermark`: see `refine`. -/
namespace Driver.C40
open Driver Model.StartOff

def parseOffset (kind x r e t : String) : Option Offset := do
  let x ← x.toNat?
  let r ← r.toInt?
  let e ← e.toInt?
  let t ← t.toNat?
  match kind with
  | "at" => some (.exact x r (if e < 0 then none else some e.toNat))
  | "start" => some (.start r)
  | "end" => some (.fin r)
  | "milli" => some (.milli t)
  | "cm" => some .committed
  | _ => none

def parseEv (t : String) : Option Ev :=
  match t.splitOn ":" with
  | ["R", o, ts, b, x] => do some (.acked (← o.toNat?) (← ts.toNat?) (← b.toNat?) (← x.toNat?))
  | ["T", k, c] => do some (.txnEnd (← k.toNat?) (c == "c"))
  | ["Del", o] => do some (.deleted (← o.toNat?))
  | ["S", a, b, c] => do some (.shape (← a.toNat?) (← b.toNat?) (← c.toNat?))
  | ["Cm", o] => do some (.groupCommit (← o.toNat?))
  | ["O", kind, x, r, e, t] => do some (.offset (← parseOffset kind x r e t))
  | ["E", _] => some .fetchErr
  | ["N"] => some .nothingYet
  | ["F", "none"] => some (.first none)
  | ["F", o] => do some (.first (some (← o.toNat?)))
  | ["L", o, ts, c] => do some (.logRec (← o.toNat?) (← ts.toNat?) (c == "1"))
  | ["Q"] => some .quiesce
  | _ => none

def parseCfg (t : String) : Option Cfg :=
  match t.splitOn ":" with
  | ["cfg", c] => some { rc := c == "1" }
  | _ => none

/-- all refusals, with the state before each refused event -/
def refusals (c : Cfg) : St → List Ev → List (String × St) → List (String × St)
  | _, [], acc => acc.reverse
  | s, e :: es, acc =>
    match check c s e with
    | none => refusals c (apply c s e) es acc
    | some r => refusals c (apply c s e) es ((r, s) :: acc)

/-- kfake's ListOffsets-by-timestamp as the code has it (02_list_offsets.go): batches in offset order; the first batch
whose max timestamp is ≥ t; inside it the last record with timestamp ≤ t, the batch's first record when there is none;
no batch: -1, which the client replaces by the end. Batches: produce batches of the acknowledged records, every control
record is its own batch. Only batches with a record at or above the log start still exist. -/
def kfakeMilli (c : Cfg) (s : St) (sh : Nat × Nat × Nat) (t : Nat) : Nat :=
  let fin := if c.rc then sh.2.1 else sh.2.2
  -- (off, ts, batch) of every record below the high watermark, ascending offsets
  let data := s.acked.map (fun a => (a.1, a.2.1, a.2.2.1))
  let ctl := (s.log.filter (fun l => l.2.2)).map (fun l => (l.1, l.2.1, 100000 + l.1))
  let all := ((data ++ ctl).filter (fun r => decide (r.1 < sh.2.2))).mergeSort (fun a b => decide (a.1 ≤ b.1))
  let live := all.filter (fun r => all.any (fun q => q.2.2 == r.2.2 && decide (sh.1 ≤ q.1)))
  let maxOf (b : Nat) : Nat := (live.filter (·.2.2 == b)).foldl (fun m r => max m r.2.1) 0
  match live.find? (fun r => decide (t ≤ maxOf r.2.2)) with
  | none => fin
  | some f =>
    let inB := live.filter (·.2.2 == f.2.2)
    inB.foldl (fun ans r => if r.2.1 ≤ t then r.1 else ans) f.1

/-- Go's `sort.Search` -/
def goSearch (n : Nat) (pred : Nat → Bool) : Nat :=
  let rec go (fuel lo hi : Nat) : Nat :=
    match fuel with
    | 0 => lo
    | fuel + 1 => if lo < hi then (let mid := (lo + hi) / 2; if !pred mid then go fuel (mid + 1) hi else go fuel lo mid) else lo
  go (n + 2) 0 n

/-- the same handler with its batch lookup as coded: a binary search (`findBatchMeta`) that presumes the batches' max
timestamps never decrease (one segment: the logs here are far below the segment size) -/
def kfakeMilliBin (c : Cfg) (s : St) (sh : Nat × Nat × Nat) (t : Nat) : Nat :=
  let fin := if c.rc then sh.2.1 else sh.2.2
  let data := s.acked.map (fun a => (a.1, a.2.1, a.2.2.1))
  let ctl := (s.log.filter (fun l => l.2.2)).map (fun l => (l.1, l.2.1, 100000 + l.1))
  let all := ((data ++ ctl).filter (fun r => decide (r.1 < sh.2.2))).mergeSort (fun a b => decide (a.1 ≤ b.1))
  let live := all.filter (fun r => all.any (fun q => q.2.2 == r.2.2 && decide (sh.1 ≤ q.1)))
  let ids := (live.map (·.2.2)).eraseDups
  let maxOf (b : Nat) : Nat := (live.filter (·.2.2 == b)).foldl (fun m r => max m r.2.1) 0
  let maxes := ids.map maxOf
  match maxes.getLast? with
  | none => fin
  | some lastMax =>
    if lastMax < t then fin else
    let i := goSearch ids.length (fun i => decide (t ≤ maxes.getD i 0))
    match ids[i]? with
    | none => fin
    | some b =>
      let inB := live.filter (·.2.2 == b)
      match inB with
      | [] => fin
      | f :: _ => inB.foldl (fun ans r => if r.2.1 ≤ t then r.1 else ans) f.1

def refine (c : Cfg) (r : String) (s : St) : String :=
  if r != "C40.first-record-not-at-resolved-position" then r else
  let ret := returnable c s.acked s.txns s.log
  match s.offset, s.shape, s.first with
  | some (.milli t), some sh, some f =>
    let kp := kfakeMilli c s sh t
    let kb := kfakeMilliBin c s sh t
    if decide (sh.1 ≤ kp) && f == firstAtOrAfter ret kp then "C40.aftermilli-kfake-picks-last-le"
    else if decide (sh.1 ≤ kb) && f == firstAtOrAfter ret kb then "C40.aftermilli-kfake-binary-search-unsorted-timestamps"
    -- the handler's answer lies in a batch that DeleteRecords trimmed partially, below the log start: the first fetch is
    -- out of range and the client resets -- to the same AfterMilli offset (nothing is ever returned) or to the log start
    else if decide (kb < sh.1) && (f == none || f == firstAtOrAfter ret sh.1) then "C40.aftermilli-kfake-answers-below-log-start"
    else r
  | some (.exact x rel e), some sh, some f =>
    let want : Int := (x : Int) + rel
    -- the cursor is set to the exact offset without listing; beyond the high watermark the first fetch answers
    -- OFFSET_OUT_OF_RANGE and the client restarts at the configured reset offset (default: the log start)
    if decide (want > (sh.2.2 : Int)) && f == firstAtOrAfter ret sh.1 then "C40.exact-beyond-end-restarts-at-reset-offset"
    -- with an epoch the offset is validated by OffsetForLeaderEpoch: beyond the end it is reported as data loss and
    -- reset to the epoch's end offset, which is the high watermark also under read_committed
    else if c.rc && e.isSome && decide (want > (sh.2.2 : Int)) && f == firstAtOrAfter ret sh.2.2 then
      "C40.exact-with-epoch-beyond-end-uses-high-watermark"
    -- read_committed: an exact offset between the last stable offset and the high watermark is kept
    else if c.rc && decide (want > (sh.2.1 : Int)) && decide (want ≤ (sh.2.2 : Int)) && f == firstAtOrAfter ret want.toNat then
      "C40.exact-above-lso-kept-under-read-committed"
    else r
  | _, _, _ => r

def handle (impl : String) : String :=
  if impl.startsWith "PANIC" || impl.startsWith "HANG" || impl.startsWith "ERR" then
    s!"* | 0:C40.scenario-{(impl.splitOn ":").head!.toLower} | 1"
  else
  match toks impl with
  | [] => "!empty | - | 0"
  | ct :: ets =>
    match parseCfg ct with
    | none => "!bad-cfg | - | 0"
    | some c =>
      let evs := ets.map parseEv
      if evs.any (·.isNone) then "!bad-event | - | 0" else
      let es := evs.filterMap id
      let rs := (refusals c {} es []).map (fun p => refine c p.1 p.2)
      let gotFirst := es.any (fun e => match e with | .first (some _) => true | _ => false)
      let nLog := (es.filter (fun e => match e with | .logRec _ _ _ => true | _ => false)).length
      let nt := boolStr (gotFirst && decide (nLog ≥ 4))
      match rs with
      | [] => s!"* | 1 | {nt}"
      | r :: _ => s!"* | 0:{r} | {nt}"

end Driver.C40

def main : IO UInt32 := Driver.runLoop () (fun _ line => ((), Driver.C40.handle (Driver.splitBar line).2))
