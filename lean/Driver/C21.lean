import Driver.Common
import FranzVerif.Model.C21
/-! Sub-driver C21. Input lines `op | impl`; output `model | verdict | nontrivial`.

  neg <kind> <key> <cmax> <via> <kfcap> <bmode> <bmin> <bmax> <umax> <umin> <sasl>  |  <focal> ; <frames>

(see harness/cmd/c21/main.go for the tokens). The model output is `<focal> ; <frames>` where `<focal>` is
computed by the model (`clampSchedule` for requests, `initApiChain` / `saslHandshakeVersion` /
`saslAuthVersion` for the connection-setup kinds) and `<frames>` — the other frames of the case, which
depend on what else the client chose to send — is echoed from the implementation (i.e. compared as `*`).
The verdict is the Spec on everything the implementation wrote: the focal observation against the
bounds of the op line, and every other frame against the bounds printed with it. -/
open Driver Model.C21

structure Op where
  kind : String
  key : Int
  cmax : Int
  via : String
  bmode : String
  bmin : Int
  bmax : Int
  umax : String
  umin : String

def parseOp (ts : List String) : Option Op :=
  match ts with
  | ["neg", kind, key, cmax, via, _, bmode, bmin, bmax, umax, umin, _] =>
    match key.toInt?, cmax.toInt?, bmin.toInt?, bmax.toInt? with
    | some key, some cmax, some bmin, some bmax => some ⟨kind, key, cmax, via, bmode, bmin, bmax, umax, umin⟩
    | _, _, _, _ => none
  | _ => none

/-- user bound token: `nil` | `miss` | `dmiss` | `<n>` | `d<n>` (d = the client's default table) -/
def userTok (s : String) : Spec.User :=
  if s = "nil" then .unset
  else if s = "miss" ∨ s = "dmiss" then .missing
  else match (if s.startsWith "d" then (s.drop 1).toString else s).toInt? with
    | some n => .val n
    | none => .unset

/-- the `kversion.Versions` the client was configured with, as far as the model reads it: the focal key,
and key 18 (present with 4 unless the case pins the client pre-0.10). -/
def userVersions (o : Op) (tok : String) (isMax : Bool) : Option Versions :=
  match userTok tok with
  | .unset => none
  | .missing => some (if isMax ∧ o.bmode ≠ "noapi" ∧ o.key ≠ 18 then [(18, 4)] else [(o.key + 1000, 0)])
  | .val n => some (if isMax ∧ o.bmode ≠ "noapi" ∧ o.key ≠ 18 then [(o.key, n), (18, 4)] else [(o.key, n)])

/-- the ApiVersions table the scripted broker answers with (only the keys the model reads) -/
def tableOf (o : Op) : Option BrokerVersions :=
  let others : BrokerVersions := [⟨0, 0, 12⟩, ⟨17, 0, 1⟩, ⟨18, 0, 4⟩, ⟨36, 0, 2⟩].filter (fun e => e.key != o.key)
  let noProduce := others.filter (fun e => e.key != 0)
  if o.bmode = "adv" then some (⟨o.key, o.bmin, o.bmax⟩ :: others)
  else if o.bmode = "adv0" then some (⟨o.key, o.bmin, o.bmax⟩ :: noProduce)
  else if o.bmode = "miss" then some others
  else if o.bmode = "miss0" then some noProduce
  else none

def specBrokerOf (o : Op) : Spec.Broker :=
  if o.bmode = "adv" ∨ o.bmode = "adv0" then .range o.bmin o.bmax
  else if o.bmode = "noapi" then .noApi
  else .missing

def inOf (o : Op) : In :=
  { key := o.key, cmax := o.cmax, bv := (tableOf o).getD [], umax := userVersions o o.umax true, umin := userVersions o o.umin false }

def insertSorted (x : Int) : List Int → List Int
  | [] => [x]
  | y :: ys => if x < y then x :: y :: ys else if x = y then y :: ys else y :: insertSorted x ys

def sortDistinct (xs : List Int) : List Int := xs.foldl (fun acc x => insertSorted x acc) []

def showVersions (vs : List Int) : String := "w " ++ ",".intercalate ((sortDistinct vs).map toString)

/-- the model's focal output -/
def modelFocal (o : Op) : String :=
  let i := inOf o
  let flowish := o.via = "flow" ∨ o.via = "internal"
  if o.via = "internal" then
    if !issuesApiVersions i.umax then "e -" else
    let adv18 := i.bv.find 18
    let first := initApiFirst i.umax
    let (chain, loaded) := initApiChain adv18 (first.toNat + 1) first
    if o.kind = "initapi" then showVersions chain
    else if !loaded then "e -"
    else if o.kind = "saslhs" then
      match saslHandshakeVersion i.bv with | some v => showVersions [v] | none => "e -"
    else
      match saslAuthVersion i.bv with | some v => showVersions [v] | none => "e -"
  else
    match clampSchedule i (pinSchedule o.kind) with
    | .ok v => showVersions [v]
    | .errUnknownRequestKey => if flowish then "e -" else "e unknownkey"
    | .errBrokerTooOld => if flowish then "e -" else "e tooold"
    | .userMinError _ _ => if flowish then "e -" else "e usermin"

/-- Spec bounds of the focal request, one per pin alternative -/
def focalBounds (o : Op) : List Spec.Bounds :=
  (pinSchedule o.kind).map fun p =>
    { cmax := o.cmax, pinMax := pinMaxO p, pinMin := pinMinO p, broker := specBrokerOf o,
      umax := userTok o.umax, umin := userTok o.umin }

def parseVersions (s : String) : List Int := (s.splitOn ",").filterMap (·.toInt?)

/-- verdict of one check: `none` = holds, `some key` = violated with that class ("" = unclassified) -/
abbrev Fail := Option String

/-- Stable class of a failing frame: the SASL setup requests; the ApiVersions of connection setup; a
request written although the table has no usable entry for its key (absent, or a negative max) and no
Produce key either. Anything else is unclassified. -/
def classOf (key : Int) (isInit : Bool) (bmode : String) (bmax : Int := 0) : String :=
  if key = 17 ∨ key = 36 then "sasl-version-is-broker-max"
  else if isInit then "init-apiversions-unclamped"
  else if (bmode = "miss0" ∨ bmode = "miss" ∨ bmax < 0) ∧ (bmode = "miss0" ∨ bmode = "adv0" ∨ key = 0) then
    "key-missing-without-produce-key"
  else ""

def focalFails (o : Op) (focal : String) : List String :=
  match toks focal with
  | ["w", vs] =>
    let vs := sortDistinct (parseVersions vs)
    if o.kind = "initapi" then
      -- the first attempt (highest version) knows nothing of the broker; later attempts know the KIP-511 reply
      let first : Spec.Bounds := { cmax := o.cmax, broker := .noApi, umax := userTok o.umax, umin := userTok o.umin }
      let later : Spec.Bounds := { first with broker := specBrokerOf o }
      match vs.reverse with
      | [] => [""]
      | v :: rest =>
        (if Spec.ok first (some v) then [] else [classOf 18 true o.bmode]) ++
        rest.filterMap (fun w => if Spec.ok later (some w) then none else some (classOf 18 true o.bmode))
    else
      vs.filterMap fun v => if Spec.okSchedule (focalBounds o) (some v) then none else some (classOf o.key false o.bmode o.bmax)
  | ["e", _] =>
    if o.via = "internal" then []   -- a setup request that is not sent is not a failed request
    else if Spec.okSchedule (focalBounds o) none then [] else [""]
  | _ => [""]

/-- one incidental frame `key:version:cmax:bmode:bmin:bmax:umax:umin:tag` -/
def frameFails (f : String) : List String :=
  match f.splitOn ":" with
  | [key, v, cmax, bmode, bmin, bmax, umax, umin, tag] =>
    match key.toInt?, v.toInt?, cmax.toInt?, bmin.toInt?, bmax.toInt? with
    | some key, some v, some cmax, some bmin, some bmax =>
      let br : Spec.Broker :=
        if bmode = "adv" ∨ bmode = "adv0" then .range bmin bmax
        else if bmode = "noapi" ∨ bmode = "pre" then .noApi else .missing
      let b : Spec.Bounds := { cmax := cmax, broker := br, umax := userTok umax, umin := userTok umin }
      if Spec.ok b (some v) then [] else [classOf key (tag = "i") bmode bmax]
    | _, _, _, _, _ => [""]
  | _ => [""]

/-! ### seq cases: one client, several connections, the advertised table changes (harness/cmd/c21/seq.go)

    seq <umax> <umin> <step>…  |  <event>…

Events, in the order the broker side saw them: `A:obj:conn:table`, `W:obj:conn:key:version:cmax:umax:umin:ct:step`,
`E:obj:key:cmax:umax:umin:class:step`, `X:step`. The model keeps, per broker object, the stored table
(`stepStored` on every `A`) and recomputes the version / error class of every `W` / `E` (`stepOut`); the
verdict is `Spec.obsOk` of every `W` / `E` against the history of its broker object. -/

def parseTable (s : String) : Option (List ApiKey) :=
  (s.splitOn ",").mapM fun e =>
    match e.splitOn "." with
    | [k, lo, hi] => match k.toInt?, lo.toInt?, hi.toInt? with
      | some k, some lo, some hi => some ⟨k, lo, hi⟩
      | _, _, _ => none
    | _ => none

/-- the client's `kversion.Versions` as far as the model reads it for one key (and key 18, which every seq client has) -/
def seqVersions (key : Int) (tok : String) (isMax : Bool) : Option Versions :=
  match userTok tok with
  | .unset => none
  | .missing => some (if isMax then [(18, 4)] else [(key + 1000, 0)])
  | .val n => some (if isMax ∧ key ≠ 18 then [(key, n), (18, 4)] else [(key, n)])

structure SeqObj where
  name : String
  stored : StoredV := none
  /-- what the broker side saw of this object, newest first -/
  seenRev : List Spec.Obs := []
  firstTable : String := ""
  changed : Bool := false

structure SeqSt where
  objs : List SeqObj := []
  out : List String := []
  fails : List String := []
  nontrivial : Bool := false

def SeqSt.get (st : SeqSt) (n : String) : SeqObj :=
  match st.objs.find? (·.name == n) with | some o => o | none => { name := n }

def SeqSt.put (st : SeqSt) (o : SeqObj) : SeqSt :=
  { st with objs := o :: st.objs.filter (·.name != o.name) }

def errClass : Out → String
  | .ok _ => "ok"
  | .errUnknownRequestKey => "unknownkey"
  | .errBrokerTooOld => "tooold"
  | .userMinError _ _ => "usermin"

/-- an unusable entry: absent, or advertised with a negative max -/
def unusable (br : Spec.Broker) : Bool :=
  match br with | .missing => true | .range _ hi => decide (hi < 0) | .noApi => false

/-- Stable class of a written request that the Spec rejects. -/
def seqClassW (seenRev : List Spec.Obs) (key v : Int) : String :=
  let br := Spec.brokerAt seenRev key
  if unusable br ∧ (key = 0 ∨ unusable (Spec.brokerAt seenRev 0)) then "key-missing-without-produce-key"
  else match br with
    | .missing => "version-outside-latest-advertised-range"
    | .range lo hi => if v < lo ∨ v > hi then "version-outside-latest-advertised-range" else ""
    | .noApi => ""

def seqEvent (st : SeqSt) (tok : String) : SeqSt :=
  match tok.splitOn ":" with
  | ["A", obj, _, table] =>
    match parseTable table with
    | none => { st with out := st.out ++ ["bad-table"], fails := st.fails ++ [""] }
    | some t =>
      let o := st.get obj
      let o := { o with stored := stepStored none o.stored (.connect t), seenRev := .adv t :: o.seenRev,
                        firstTable := if o.seenRev.isEmpty ∧ o.firstTable = "" then table else o.firstTable,
                        changed := o.changed || (o.firstTable ≠ "" && o.firstTable ≠ table) }
      { st.put o with out := st.out ++ [tok] }
  | ["W", obj, conn, key, v, cmax, umax, umin, ct, stp] =>
    match key.toInt?, v.toInt?, cmax.toInt? with
    | some k, some v, some c =>
      let o := st.get obj
      let mtok := match stepOut (seqVersions k umax true) (seqVersions k umin false) o.stored (.request { key := k, cmax := c }) with
        | .clamped (.ok mv) => s!"W:{obj}:{conn}:{key}:{mv}:{cmax}:{umax}:{umin}:{ct}:{stp}"
        | .clamped e => s!"E:{obj}:{key}:{cmax}:{umax}:{umin}:{errClass e}:{stp}"
        | _ => s!"P:{obj}:{key}:nil-versions:{stp}"
      let ob : Spec.Obs := .wrote k c none none (userTok umax) (userTok umin) v
      let fails := if Spec.obsOk o.seenRev ob then [] else [seqClassW o.seenRev k v]
      { st.put { o with seenRev := ob :: o.seenRev } with
        out := st.out ++ [mtok], fails := st.fails ++ fails, nontrivial := st.nontrivial || o.changed }
    | _, _, _ => { st with out := st.out ++ ["bad-event"], fails := st.fails ++ [""] }
  | ["E", obj, key, cmax, umax, umin, _, stp] =>
    match key.toInt?, cmax.toInt? with
    | some k, some c =>
      let o := st.get obj
      let mtok := match stepOut (seqVersions k umax true) (seqVersions k umin false) o.stored (.request { key := k, cmax := c }) with
        | .clamped (.ok mv) => s!"W:{obj}:?:{key}:{mv}:{cmax}:{umax}:{umin}:?:{stp}"
        | .clamped e => s!"E:{obj}:{key}:{cmax}:{umax}:{umin}:{errClass e}:{stp}"
        | _ => s!"P:{obj}:{key}:nil-versions:{stp}"
      let ob : Spec.Obs := .failed k c none none (userTok umax) (userTok umin)
      let fails := if Spec.obsOk o.seenRev ob then [] else ["failed-though-latest-advertised-range-admits"]
      { st.put { o with seenRev := ob :: o.seenRev } with
        out := st.out ++ [mtok], fails := st.fails ++ fails, nontrivial := st.nontrivial || o.changed }
    | _, _ => { st with out := st.out ++ ["bad-event"], fails := st.fails ++ [""] }
  | ["X", _] => { st with out := st.out ++ [tok] }
  | _ => if tok = "-" then { st with out := st.out ++ [tok] } else { st with out := st.out ++ ["bad-event"], fails := st.fails ++ [""] }

def seqStep (impl : String) : String :=
  let st := (toks impl).foldl seqEvent {}
  let verdict :=
    if st.fails.isEmpty then "1"
    else if st.fails.any (· = "") then "0"
    else match st.fails.filter (· ≠ "key-missing-without-produce-key"), st.fails with
      | k :: _, _ => "0:" ++ k
      | [], k :: _ => "0:" ++ k
      | [], [] => "1"
  s!"{" ".intercalate st.out} | {verdict} | {boolStr st.nontrivial}"

def step (_ : Unit) (line : String) : Unit × String :=
  let (op, impl) := splitBar line
  if (toks op).head? = some "seq" then
    if impl = "bad-op" then ((), "bad-op | - | 0") else ((), seqStep impl)
  else
  match parseOp (toks op) with
  | none => ((), "bad-op | - | 0")
  | some o =>
    if impl = "bad-op" then ((), "bad-op | - | 0") else
    let (focal, frames) := match impl.splitOn " ; " with
      | [a] => (a.trimAscii.toString, "")
      | a :: rest => (a.trimAscii.toString, (" ; ".intercalate rest).trimAscii.toString)
      | [] => ("", "")
    let mf := modelFocal o
    let mout := if frames.isEmpty then mf ++ " ;" else mf ++ " ; " ++ frames
    let fails := focalFails o focal ++ ((toks frames).filter (· ≠ "-")).flatMap frameFails
    let verdict :=
      if fails.isEmpty then "1"
      else if fails.any (· = "") then "0"
      else match fails with | k :: _ => "0:" ++ k | [] => "1"
    let nt := !(focal = s!"w {o.cmax}" ∧ o.bmode = "adv")
    ((), s!"{mout} | {verdict} | {boolStr nt}")

def main : IO UInt32 := runLoop () step
