import Driver.GroupHist
def main : IO UInt32 := Driver.runLoop () (fun _ line => ((), Driver.GroupHist.handle "C08" (Driver.splitBar line).2))
