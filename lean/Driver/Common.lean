/-! Line-protocol plumbing shared by every sub-driver (core Lean only).

Each input line is `op tokens | implementation output tokens`.  A sub-driver maps a line
(and its own state) to one output line `model output | spec verdict`, where the verdict is the
*Spec* evaluated on the implementation's output (`1` holds, `0` violated, `-` not applicable). -/
namespace Driver

def splitBar (line : String) : String × String :=
  match line.splitOn " | " with
  | [a] => (a.trimAscii.toString, "")
  | a :: rest => (a.trimAscii.toString, (" | ".intercalate rest).trimAscii.toString)
  | [] => ("", "")

def toks (s : String) : List String :=
  (s.splitOn " ").filter (· ≠ "")

def parseInt? (s : String) : Option Int := s.toInt?

def boolStr (b : Bool) : String := if b then "1" else "0"

def hexVal (c : Char) : Option Nat :=
  if '0' ≤ c ∧ c ≤ '9' then some (c.toNat - '0'.toNat)
  else if 'a' ≤ c ∧ c ≤ 'f' then some (c.toNat - 'a'.toNat + 10)
  else if 'A' ≤ c ∧ c ≤ 'F' then some (c.toNat - 'A'.toNat + 10)
  else none

/-- hex string to bytes; `.` is the empty string. -/
def parseHex? (s : String) : Option (List UInt8) :=
  if s = "." then some [] else
  let rec go : List Char → List UInt8 → Option (List UInt8)
    | [], acc => some acc.reverse
    | [_], _ => none
    | a :: b :: rest, acc =>
      match hexVal a, hexVal b with
      | some x, some y => go rest (UInt8.ofNat (x * 16 + y) :: acc)
      | _, _ => none
  go s.toList []

def hexDigit (n : Nat) : Char :=
  if n < 10 then Char.ofNat ('0'.toNat + n) else Char.ofNat ('a'.toNat + n - 10)

def toHex (bs : List UInt8) : String :=
  if bs.isEmpty then "." else
  String.ofList (bs.flatMap fun b => [hexDigit (b.toNat / 16), hexDigit (b.toNat % 16)])

/-- Run a stateful line handler over stdin. -/
partial def loop {σ : Type} (h : IO.FS.Stream) (out : IO.FS.Stream) (st : σ)
    (step : σ → String → σ × String) : IO Unit := do
  let line ← h.getLine
  if line.isEmpty then
    out.flush
    return ()
  let l := line.trimAscii.toString
  if l.isEmpty || l.startsWith "#" then
    loop h out st step
  else
    let (st', o) := step st l
    out.putStrLn o
    loop h out st' step

def runLoop {σ : Type} (st : σ) (step : σ → String → σ × String) : IO UInt32 := do
  let stdin ← IO.getStdin
  let stdout ← IO.getStdout
  loop stdin stdout st step
  return 0

end Driver
