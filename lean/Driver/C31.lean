import Driver.Common
import FranzVerif.Model.C31
import FranzVerif.Spec.C31
/-! Sub-driver C31. Input lines `kind programs schedule | implementation trace`; output
`model trace | verdict | nontrivial`.

The model trace is `Sys.run` of the Lean automaton on the same programs and schedule and must equal the
implementation's trace token by token (thread chosen, event, shared state after every action, ending).
The verdict is `Spec.C31` evaluated on the *implementation's* trace. Non-trivial = some state of the run
had an unfinished thread that was not enabled (real contention). -/
open Driver Model.C31

def parseSched (w : String) : List Nat :=
  if w = "-" then [] else w.toList.map fun c => c.toNat - '0'.toNat

def parseProgs (w : String) : List (List Char) :=
  (w.splitOn ";").map fun p => if p = "-" then [] else p.toList

def gateOps (p : List Char) : Option (List Gate.Op) :=
  p.mapM fun c => match c with | 'P' => some .P | 'Q' => some .Q | 'A' => some .A | 'R' => some .R | _ => none
def mxOps (p : List Char) : Option (List Mx.Op) :=
  p.mapM fun c => match c with | 'L' => some .L | 'T' => some .T | 'U' => some .U | _ => none
def rwOps (p : List Char) : Option (List Rw.Op) :=
  p.mapM fun c => match c with
    | 'R' => some .R | 'W' => some .W | 'r' => some .TR | 'w' => some .TW | 'u' => some .UR | 'U' => some .UW | _ => none

/-- `3:padd/1.0.0` ↦ `(3, "padd")`; the ending token is returned separately. -/
def parseTrace (s : String) : List (Nat × String) × String :=
  let ts := toks s
  match ts.reverse with
  | [] => ([], "")
  | ending :: rev =>
    let evs := rev.reverse.map fun tok =>
      let head := (tok.splitOn "/").headD ""
      match head.splitOn ":" with
      | [t] => (t.toNat?.getD 0, "")
      | t :: e :: _ => (t.toNat?.getD 0, e)
      | [] => (0, "")
    (evs, ending)

def verdictStr : Option String → String
  | none => "1"
  | some k => "0:" ++ k

def fuel : Nat := 4000

def step (_ : Unit) (line : String) : Unit × String :=
  let (op, impl) := splitBar line
  match toks op with
  | [kind, progsW, schedW] =>
    let progs := parseProgs progsW
    let sched := parseSched schedW
    let (evs, ending) := parseTrace impl
    match kind with
    | "gate" =>
      match progs.mapM gateOps with
      | some ps =>
        let (tr, ct) := Gate.sys.run Gate.showSh fuel (Gate.init ps) sched [] false
        ((), s!"{" ".intercalate tr} | {verdictStr (Spec.C31.gate progs evs ending)} | {boolStr ct}")
      | none => ((), "bad-op | - | 0")
    | "mx" =>
      match progs.mapM mxOps with
      | some ps =>
        let (tr, ct) := Mx.sys.run Mx.showSh fuel (Mx.init ps) sched [] false
        let balanced := progs.all fun p => p.all (· != 'U')
        let v := if balanced then verdictStr (Spec.C31.mx evs ending) else "-"
        ((), s!"{" ".intercalate tr} | {v} | {boolStr ct}")
      | none => ((), "bad-op | - | 0")
    | "rw" =>
      match progs.mapM rwOps with
      | some ps =>
        let (tr, ct) := Rw.sys.run Rw.showSh fuel (Rw.init ps) sched [] false
        let balanced := progs.all fun p => p.all fun c => c != 'U' && c != 'u'
        let v := if balanced then verdictStr (Spec.C31.rw evs ending) else "-"
        ((), s!"{" ".intercalate tr} | {v} | {boolStr ct}")
      | none => ((), "bad-op | - | 0")
    | _ => ((), "bad-op | - | 0")
  | _ => ((), "bad-op | - | 0")

def main : IO UInt32 := runLoop () step
