import Driver.Common
import FranzVerif.Model.C12
import FranzVerif.Spec.C12
import Driver.ShareHist
/-! Sub-driver C12. Input lines `op | impl`; output `model | verdict | nontrivial`.
`share …` lines (protocol half) go to the history monitor (`Driver.ShareHist`); the pure-half ops below carry the
kind token `ackr` in front (`ackr build …`).
Entry token `off,status,src,epoch,id`; range token `first,last,src,epoch,type`.

  build <entry>* / <gap>*   | <range>* r<0|1>     model: `buildAckRanges`; Spec: `specBuild` on the implementation's
                                                  ranges (inputs outside `wfInput` are compared, not judged)
  coal <range>* / <range>   | <range>* (or -)     model: `coalesceAppendRange`; Spec: `specCoalesce`
  stale self epoch <entry>* / <gap>* [; ...]      model: `filterEntries`/`filterGaps` per drain; Spec: `specStale`
        | nUser nStale ; <entry>* / <gap>* / err [; ...]
  try init <status,strict|reset>*  | <0|1>* =final   model: `tryAckAtomic` folded; Spec: `specTryAck`
  race init <status,strict|reset>* | <0|1>* =final   model output `*` (real goroutines); Spec: `specTryAck` -/
open Driver Model.C12 Spec.C12

def ints (tok : String) : Option (List Int) := (tok.splitOn ",").mapM String.toInt?

def parseEntry (tok : String) : Option (Entry × Int) :=
  match ints tok with
  | some [o, s, src, ep, id] => some (⟨o, s, src, ep⟩, id)
  | _ => none

def parseRange (tok : String) : Option Range :=
  match ints tok with
  | some [f, l, src, ep, t] => some ⟨f, l, src, ep, t⟩
  | _ => none

def fmtRange (r : Range) : String := s!"{r.first},{r.last},{r.source},{r.epoch},{r.ty}"
def fmtRanges (rs : List Range) : String := " ".intercalate (rs.map fmtRange)
def fmtEntry (e : Entry × Int) : String := s!"{e.1.offset},{e.1.status},{e.1.source},{e.1.epoch},{e.2}"
def dash (s : String) : String := if s.isEmpty then "-" else s

/-- split a token list at a separator token -/
def splitAt (ts : List String) (sep : String) : List (List String) :=
  let (cur, acc) := ts.foldl (fun (cur, acc) t => if t == sep then ([], cur.reverse :: acc) else (t :: cur, acc)) ([], [])
  (cur.reverse :: acc).reverse

def undash (ts : List String) : List String := ts.filter (· ≠ "-")

/-- Go's sort is only stable up to 12 elements: above that, equal keys with different values may come out in
either order. -/
def unstable {α} [BEq α] (xs : List α) (key : α → Int) : Bool :=
  xs.length > 12 && xs.any (fun a => xs.any (fun b => key a == key b && !(a == b)))

def bad : String := "bad-op | - | 0"

def doBuild (op impl : List String) : String :=
  match splitAt op "/" with
  | [ets, gts] =>
    match ets.mapM parseEntry, gts.mapM parseRange with
    | some eis, some gs =>
      let es := eis.map (·.1)
      let (mout, mhr) := buildAckRanges es gs
      let mstr := (if mout.isEmpty then "" else fmtRanges mout ++ " ") ++ "r" ++ boolStr mhr
      let mstr := if unstable es (·.offset) || unstable gs (·.first) then "*" else mstr
      let live := (es.filter (·.status != 0)).length
      let nt := boolStr (live + gs.length ≥ 2)
      -- Spec on the implementation's output
      let verdict :=
        if !wfInput es gs then "-" else
        match impl.reverse with
        | hrTok :: rts =>
          match (rts.reverse).mapM parseRange, hrTok with
          | some out, "r0" | some out, "r1" =>
            let hr := hrTok == "r1"
            if specBuild es gs out hr then "1"
            else if !coverageOK es gs out then "0:ackranges-coverage"
            else if !renewOK out hr then "0:ackranges-renew-flag"
            else if gapBelowEntry es gs && twoRuns out then "0:ackranges-gaps-after-entries"
            else "0:ackranges-order"
          | _, _ => "0:ackranges-unparsable"
        | [] => "0:ackranges-unparsable"
      s!"{mstr} | {verdict} | {nt}"
    | _, _ => bad
  | _ => bad

def doCoal (op impl : List String) : String :=
  match splitAt op "/" with
  | [ots, [rt]] =>
    match ots.mapM parseRange, parseRange rt with
    | some out, some r =>
      let m := coalesceAppendRange out r
      let verdict :=
        if !((out ++ [r]).all (fun x => decide (x.first ≤ x.last))) then "-" else
        match (undash impl).mapM parseRange with
        | some res => if specCoalesce out r res then "1" else "0:coalesce"
        | none => "0:coalesce-unparsable"
      s!"{dash (fmtRanges m)} | {verdict} | {boolStr (!out.isEmpty)}"
    | _, _ => bad
  | _ => bad

def errStr : Option DropErr → String
  | none => "-"
  | some .epoch => "epoch"
  | some .state => "state"

def parseErr : String → Option (Option DropErr)
  | "-" => some none
  | "epoch" => some (some .epoch)
  | "state" => some (some .state)
  | _ => none

def parseDrain (ts : List String) : Option (List (Entry × Int) × List Range) :=
  match splitAt ts "/" with
  | [ets, gts] => do
    let es ← (undash ets).mapM parseEntry
    let gs ← (undash gts).mapM parseRange
    pure (es, gs)
  | _ => none

def parseRes (ts : List String) : Option (List Entry × List Range × Option DropErr) :=
  match splitAt ts "/" with
  | [ets, gts, [e]] => do
    let es ← (undash ets).mapM parseEntry
    let gs ← (undash gts).mapM parseRange
    let err ← parseErr e
    pure (es.map (·.1), gs, err)
  | _ => none

def doStale (op impl : List String) : String :=
  match op with
  | selfT :: epT :: rest =>
    match selfT.toInt?, epT.toInt?, (splitAt rest ";").mapM parseDrain with
    | some self, some epoch, some drains =>
      -- model: per drain, counters accumulated
      let (parts, nu, ns) := drains.foldl (fun (parts, nu, ns) (eis, gs) =>
        let (k, u, s, err) := filterEntries self epoch (eis.map (·.1))
        -- ids of the kept entries: the kept list is a sublist in order; recover by walking
        let keptIds := (eis.filter (fun ei => deliverable self epoch ei.1.source ei.1.epoch))
        let kstr := if keptIds.map (·.1) == k then " ".intercalate (keptIds.map fmtEntry) else "model-kept-mismatch"
        let g := filterGaps self epoch gs
        (parts ++ [s!"{dash kstr} / {dash (fmtRanges g)} / {errStr err}"], nu + u, ns + s)) ([], 0, 0)
      let mstr := s!"{nu} {ns} ; " ++ " ; ".intercalate parts
      let verdict :=
        match splitAt impl ";" with
        | [nuT, nsT] :: resTs =>
          match nuT.toNat?, nsT.toNat?, resTs.mapM parseRes with
          | some inu, some ins, some res =>
            if specStale self epoch (drains.map (fun (d : List (Entry × Int) × List Range) => (d.1.map (fun (ei : Entry × Int) => ei.1), d.2))) res inu ins then "1" else "0:stale-filter"
          | _, _, _ => "0:stale-unparsable"
        | _ => "0:stale-unparsable"
      let nt := boolStr (drains.any (fun (d : List (Entry × Int) × List Range) => !d.1.isEmpty || !d.2.isEmpty))
      s!"{mstr} | {verdict} | {nt}"
    | _, _, _ => bad
  | _ => bad

inductive TOp where
  | call (status : Int) (strict : Bool)
  | reset

def parseTOp (tok : String) : Option TOp :=
  if tok == "reset" then some .reset else
  match ints tok with
  | some [s, b] => some (.call s (b == 1))
  | _ => none

def doTry (race : Bool) (op impl : List String) : String :=
  match op with
  | initT :: opTs =>
    match initT.toInt?, opTs.mapM parseTOp with
    | some init, some ops =>
      let (final, bits) := ops.foldl (fun (cur, bits) o =>
        match o with
        | .call s strict => let (c', ok) := tryAckAtomic cur s strict; (c', bits ++ [ok])
        | .reset => if cur == 4 then (0, bits ++ [true]) else (cur, bits ++ [false])) (init, [])
      let mstr := if race then "*" else (if bits.isEmpty then "" else " ".intercalate (bits.map boolStr) ++ " ") ++ s!"={final}"
      let verdict :=
        match impl.reverse with
        | fT :: bTs =>
          match (fT.drop 1).toString.toInt?, fT.startsWith "=", bTs.reverse.mapM (fun b => if b == "1" then some true else if b == "0" then some false else none) with
          | some f, true, some ibits =>
            if ibits.length != ops.length then "0:tryack-unparsable" else
            let calls : List (Int × Bool) := (ops.zip ibits).filterMap (fun ((o : TOp), (b : Bool)) => match o with | TOp.call s _ => some (s, b) | TOp.reset => none)
            if specTryAck init calls f then "1" else "0:tryack-terminal-twice"
          | _, _, _ => "0:tryack-unparsable"
        | [] => "0:tryack-unparsable"
      s!"{mstr} | {verdict} | {boolStr (ops.length ≥ 2)}"
    | _, _ => bad
  | _ => bad

def step (_ : Unit) (line : String) : Unit × String :=
  let (op, impl) := splitBar line
  let its := toks impl
  match (match toks op with | "ackr" :: r => r | r => r) with
  | "share" :: _ => ((), Driver.ShareHist.handle impl)
  | "sharedbg" :: _ => ((), Driver.ShareHist.debug impl)
  | "build" :: rest => ((), doBuild rest its)
  | "coal" :: rest => ((), doCoal rest its)
  | "stale" :: rest => ((), doStale rest its)
  | "try" :: rest => ((), doTry false rest its)
  | "race" :: rest => ((), doTry true rest its)
  | _ => ((), bad)

def main : IO UInt32 := runLoop () step
