import Driver.Common
import FranzVerif.Model.C23
/-! Sub-driver C23 (`shard` scenarios). Input `op | G:<grouping> events…`; output `model | verdict | nontrivial`.

model output = `G:<grouping predicted by Model.C23.issue under the recorded layout>` followed by the events verbatim
(so the textual comparison is exactly "predicted grouping = grouping of the real shards"); `*` when the layout
changed during the request (the final grouping then depends on which attempts arrived before the move; the Spec's
layout clause carries the check). verdict = Spec (`specPartition`, `specLayout`, `specMerged`) on the real shards. -/
open Driver Model.C23

def splitItems (s : String) : List String := if s == "-" || s == "" then [] else s.splitOn ","

def parseKV (s : String) : List (String × String) :=
  (splitItems s).filterMap fun kv => match kv.splitOn "=" with
    | [k, v] => some (k, v)
    | _ => none

def parseResp (s : String) : Option (List (String × Int)) :=
  if s == "-" then some [] else
  (s.splitOn ",").mapM fun kv => match kv.splitOn "=" with
    | [k, v] => v.toInt?.map fun c => (k, c)
    | _ => none

structure Scen where
  kind : String := ""
  fault : String := ""
  dedup : Bool := false
  requested : List String := []
  layouts : List (Nat × List (String × String)) := []
  wires : List (String × List String × Nat) := []     -- phase 1 only: node, items, version
  nwire : Nat := 0
  shards : List ObsShard := []
  phase2 : Bool := false
  merged : Option (String × List String) := none
  frames : Option Nat := none
  nwireAll : Nat := 0
  quiet : Bool := false
  bad : Bool := false
  incomplete : Bool := false

def sortS (l : List String) : List String := l.mergeSort (fun a b => decide (a ≤ b))

def applyEv (s : Scen) (t : String) : Scen :=
  match t.splitOn ":" with
  | ["K", k] => { s with kind := k }
  | ["B", _] => s
  | ["F", f] => { s with fault := f }
  | ["D", d] => { s with dedup := d == "1" }
  | ["R", r] => { s with requested := splitItems r }
  | ["L", v, kv] => match v.toNat? with
    | some v => { s with layouts := s.layouts ++ [(v, parseKV kv)] }
    | none => { s with bad := true }
  | ["W", _, node, items, v] => match v.toNat? with
    | some v => if s.phase2 then { s with nwireAll := s.nwireAll + 1 }
      else { s with wires := s.wires ++ [(node, splitItems items, v)], nwire := s.nwire + 1, nwireAll := s.nwireAll + 1 }
    | none => { s with bad := true }
  | ["A", _, _] => s
  | ["S", d, req, resp, err] =>
    let r := if resp == "-" && err != "-" then some none else (parseResp resp).map some
    match r with
    | some r => { s with shards := s.shards ++ [{ dest := d, req := splitItems req, resp := r, err := err }] }
    | none => { s with bad := true }
  | ["P"] => { s with phase2 := true }
  | ["M", e, items] => match parseResp items with
    | some r => { s with merged := some (e, r.map (·.1)) }
    | none => { s with bad := true }
  | ["N", n] => { s with frames := n.toNat? }
  | ["Q"] => { s with quiet := true }
  | ["ERRsetup"] => { s with incomplete := true }
  | _ => { s with bad := true }

/-- the layout version under which the shard's final attempt reached its broker: the last wire request to that
broker (any broker for `any` shards) carrying the same items -/
def shardVer (s : Scen) (sh : ObsShard) : Option Nat :=
  let ms := s.wires.filter fun (node, items, _) => (sh.dest == "any" || node == sh.dest) && sameMultiset items sh.req
  ms.getLast?.map (·.2.2)

def canon (ss : List (Shard String String)) : String :=
  let dests := dedupS (ss.map (·.dest))
  let groups := dests.map fun d => d ++ "=" ++ ",".intercalate (sortS ((ss.filter (·.dest == d)).flatMap (·.items)))
  if groups.isEmpty then "G:-" else "G:" ++ ";".intercalate (sortS groups)

def handle (line : String) : String :=
  let (_, impl) := splitBar line
  if impl.startsWith "PANIC" || impl.startsWith "HANG" || impl.startsWith "ERR" || impl == "bad-op" then
    s!"* | 0:C23.scenario-{((impl.splitOn ":").head!.splitOn " ").head!.toLower} | 1"
  else
  match toks impl with
  | [] => "!empty | - | 0"
  | g :: ets =>
    let s := ets.foldl applyEv {}
    if s.bad || !s.quiet then "!bad-event | 0:C23.harness-bad-event | 0" else
    if s.incomplete then "* | - | 0" else
    let fan := s.kind == "listgroups" || s.kind == "listtransactions"
    let shards := s.shards.map fun sh => { sh with ver := shardVer s sh }
    let lay0 := match s.layouts.head? with | some (_, kv) => kv | none => []
    let lastLay := match s.layouts.getLast? with | some (_, kv) => kv | none => []
    -- layouts recorded before the end of phase 1 only matter for phase 1; unmappability is static in the scenarios
    -- the layout version in force when the last phase-1 attempt carrying the item reached a broker (0 if never sent)
    let verOf (x : String) : Nat := match (s.wires.filter fun (_, items, _) => items.contains x).getLast? with
      | some (_, _, v) => v
      | none => 0
    let static := (s.layouts.filter fun (v, _) => (s.wires.any fun (_, _, wv) => wv ≥ v) && v > 0).isEmpty
    let allAnswered := shards.all fun sh => match sh.resp with | some r => r.all (fun (_, c) => !staleCode c) | none => true
    let mout :=
      if g == "G:*" then "*"
      else if static then canon (predictStatic s.dedup lay0 s.requested) ++ " " ++ " ".intercalate ets
      -- a shard answered NOT_LEADER / NOT_COORDINATOR that the client did not retry stays where it was sent: no prediction
      else if allAnswered then canon (predictMoved s.dedup s.layouts verOf s.requested) ++ " " ++ " ".intercalate ets
      else "*"
    let mappable := s.requested.filter fun x => match lastLay.find? (·.1 == x) with | some (_, d) => !isErrDest d | none => false
    let allMap := mappable.length == s.requested.length
    let rep := s.kind == "describelogdirs" || s.kind == "alterreplicalogdirs"
    let v1 := if rep then
        match specReplica s.requested lay0 shards with
        | some k => some k
        | none => if replicated s.requested lay0 then some ("C23.item-in-several-shards." ++ s.kind) else none
      else specPartition s.dedup s.requested shards
    let v2 := if rep then none else specLayout fan s.layouts shards
    let v3 := match s.merged with
      | some (e, items) => if rep then none else specMerged fan allMap s.requested mappable shards e items
      | none => some "C23.no-merged-response"
    let v3 := match v3 with
      | some k => some k
      | none => if s.frames != some s.nwireAll then some "C23.wire-frames-differ-from-broker-view" else none
    let verdict := match v1, v2, v3 with
      | some k, _, _ => "0:" ++ k
      | _, some k, _ => "0:" ++ k
      | _, _, some k => "0:" ++ k
      | none, none, none => "1"
    let brokerShards := (shards.filter fun sh => !isErrDest sh.dest).length
    let nt := boolStr (decide (shards.length ≥ 2) || decide (s.nwire > brokerShards) || !allMap
      || decide ((dedupS s.requested).length < s.requested.length))
    s!"{mout} | {verdict} | {nt}"

def main : IO UInt32 := runLoop () (fun _ line => ((), handle line))
