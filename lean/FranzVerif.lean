-- This module serves as the root of the `FranzVerif` library.
-- Import modules here that should be built as part of the library.
import FranzVerif.Basic
