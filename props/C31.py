import os, subprocess
from lib import pipeline as P
from lib.pipeline import Prop


def refresh_sut():
    """Tie D by schedule: the code under verification is copied from the CURRENT tree (lib.pipeline.REPO) on every
    run and its synchronisation primitives are rewritten to scheduler shims (harness/cmd/c31/rewrite). A source
    shape the rewriter does not understand is a translator failure (broken obligation), not a guess."""
    P.ensure_go_sum()
    p = subprocess.run(["go", "run", "./cmd/c31/rewrite", P.REPO], cwd=P.HARNESS, env=P.GOENV,
                       capture_output=True, text=True, timeout=600)
    if p.returncode != 0:
        raise RuntimeError("harness/cmd/c31/rewrite failed: " + p.stderr[-1500:])
    return p.stdout


PROP = Prop(
    "C31",
    gen=[("../harness/cmd/c31/sut_gen.go", refresh_sut)],
    models=[("pkg/kgo/consumer.go", ["consumer.waitAndAddPoller", "consumer.unaddPoller", "consumer.allowRebalance",
                                     "consumer.waitAndAddRebalanceMaybeSignal", "consumer.unaddRebalance"]),
            ("pkg/kgo/internal/xsync/synctest_mutex.go", ["Mutex.Lock", "Mutex.TryLock", "Mutex.Unlock", "RWMutex.RLock",
                                                          "RWMutex.TryRLock", "RWMutex.RUnlock", "RWMutex.Lock",
                                                          "RWMutex.TryLock", "RWMutex.Unlock"])],
    rule="one case = (kind, thread programs, schedule): the copied source runs on a cooperative scheduler and the Lean automaton "
         "runs on the same schedule; traces (thread chosen, response event, shared state after every action, ending) must be equal. "
         "Small configurations are explored exhaustively (every maximal schedule, stateless exploration of the implementation), "
         "the rest are random programs (mostly contract-abiding, some unbalanced) with long random schedules. "
         "non-trivial = some state of the run had an unfinished thread that was not enabled (contention: a Lock waiting for the mutex, "
         "a poll or rebalance parked, a writer waiting for readers or the gate). distinct = distinct op lines.",
    trusted_base=["harness/cmd/c31/rewrite (go/ast copy of synctest_mutex.go and of the five gate functions + pollWait* fields of consumer.go, "
                  "channel operations / xsync.Mutex / sync.Cond rewritten to shims)",
                  "harness/cmd/c31/shim.go (cooperative scheduler: semantics assumed for buffered channels, select-with-default, Mutex, Cond.Wait/Broadcast)",
                  "hand-written Lean automata of Model/C31.lean, tied by equal traces on the same schedules",
                  "sync.Once (init is run before the threads start; lazy-init races are not explored)",
                  "Lean compiler/runtime for the driver"],
    assumptions=["fewer than 2^32 outstanding polls / pending rebalances (the two halves of pollWaitState do not carry into each other)",
                 "rebalancers call unaddRebalance only after their own waitAndAddRebalance (the only call pattern in consumer_group.go)",
                 "deadlock freedom of the gate is under the client contract: a thread either polls/allows or rebalances, and every poll that "
                 "keeps records is followed by an AllowRebalance of the same thread",
                 "mutex theorems are for lock/unlock-balanced clients; unbalanced clients are only run differentially"],
    partial="observable-level exclusion is proved under the hypothesis that no AllowRebalance returns while another thread is between "
            "waitAndAddPoller and its unaddPoller (the excluded class is the finding late-release-steals-poll); 'polls wait while a rebalance "
            "is pending' holds only with no poll outstanding (documented behaviour), the unconditional reading is refuted by a witness",
)
MANIFEST = {
    "text": "Lean theorems over all interleavings and any number of threads (induction over action sequences of per-thread automata at the "
            "granularity of the code's synchronisation operations): gate - a rebalance section is entered and occupied only with the poller count "
            "zero, the counters never wrap, a poll that finds no outstanding poll parks while a rebalance is pending, no deadlock under the client "
            "contract and every run is finite; Mutex/RWMutex - writers alone, readers shared, readerCount equals the readers inside, a stale "
            "writer signal never admits a writer with readers present, Try* never block, no deadlock for balanced clients. The automata are tied "
            "to the current source by running the copied code on a cooperative scheduler against the model on the same schedules (exhaustive for "
            "small scopes).",
    "note": "Trusted: Lean kernel; the go/ast rewriter and the scheduler shims (channel/mutex/cond semantics); the hand-written automata "
            "(validated by equal traces, not verified); sync.Once. Finding: a late unaddPoller after another thread's AllowRebalance releases a "
            "different poll's count (key late-release-steals-poll), so the observable-level exclusion sentence holds only without that class.",
    "technique": "Lean 4 proof (inductive invariants in counting form over per-thread automata, all schedules) with schedule-driven differential "
                 "correspondence against the copied source",
}
