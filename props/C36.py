from lib.pipeline import Prop
PROP = Prop(
    "C36",
    models=[("pkg/sr/serde.go", ["ConfluentHeader.AppendEncode", "ConfluentHeader.DecodeID", "ConfluentHeader.DecodeIndex",
                                 "bReader.ReadByte", "Serde.Register", "tserdeMapClone", "Serde.AppendEncode", "Serde.Decode",
                                 "Serde.DecodeNew", "Serde.decodeFind"])],
    group_by_reset=True,
    rule="ops through the public API of pkg/sr (ConfluentHeader.AppendEncode/DecodeID/DecodeIndex; Serde.Register/Encode/AppendEncode/Decode/DecodeNew). "
         "Header: boundary grid of ids x index paths (depth 0..6 incl. 0,63,64,large,negative entries; a tail of depths 7..300), random valid headers "
         "encoded, round-tripped and decoded from independently built wire bytes under maxLength in {min int, negative, 0, 1, small, depth-1, depth, depth+1, 2^20}; "
         "every truncation and single-bit damage of a sample; hostile varints (negative / huge / unallocatable counts, 10+ continuation bytes, overlong zero); "
         "random bytes; thorough adds every byte string of length <=2 and length 4 over 10 edge bytes. Serde: groups of 1..7 registrations over 8 Go types "
         "(consistent 72%, same id with and without index 15%, ids outside uint32 6%, missing encode/decode functions 7%; re-registrations), then Encode+Decode+DecodeNew "
         "round trips, prefixed AppendEncode, and Decode of valid/unregistered/prefix/extended/truncated/damaged/hostile/random bytes. "
         "Every stateless op is preceded by `reset` (a replay is the op alone). The ops run in a child process with RLIMIT_AS=4GiB: an op that kills it "
         "(fatal error: out of memory) is outcome `panic`, an op over its 2 s deadline is `hang` (judged like a panic when the count read from the input exceeds 2^20). Non-trivial = every op except `reset`, a `reg` without index that overrides nothing, "
         "and decodes of the empty string. distinct = distinct op lines.",
    trusted_base=["hand-written Lean model of pkg/sr/serde.go (ConfluentHeader, Serde registry) and of encoding/binary's varint functions, tied by differential runs "
                  "through the public API (harness/cmd/c36 vs Driver/C36.lean)",
                  "the harness child runs with RLIMIT_AS=4GiB; a killed child is outcome `panic`, a 2 s deadline overrun is `hang`",
                  "Lean compiler/runtime for the driver"],
    assumptions=["64-bit platform (Go int = int64)",
                 "schema ids are uint32 values and registered values are non-nil (ids outside uint32 are executed and reported, outside the Spec)",
                 "an id is registered either with or without message indexes (the mixed case is executed and reported, outside the Spec's round-trip clause)",
                 "user encode/decode functions do not panic"],
    partial="",
)
MANIFEST = {
    "text": "Lean theorems over a model of pkg/sr/serde.go: the header written by ConfluentHeader.AppendEncode is the Confluent wire format (magic 0, big-endian id, "
            "zig-zag varint index with the single-zero shortcut) and DecodeID/DecodeIndex recover every id < 2^32 and every index path; on all byte strings and every "
            "maxLength (negative, 0, positive) DecodeID/DecodeIndex never panic and answer as the wire-format Spec says (error exactly for malformed input or a path longer "
            "than a positive maxLength); Serde.Encode then Decode/DecodeNew recovers the payload through the decoder of the encoding registration for every registration "
            "history in which no id is registered both with and without index; malformed headers and unregistered ids give errors; Serde decoding never panics. "
            "Model tied to the code by differential runs through the public API. This check found that DecodeIndex allocated make([]int, l) by the untrusted count "
            "(panic / out-of-memory abort for maxLength <= 0); repaired in /repo a468db8, after which the no-panic clause is proved at full strength and the old "
            "witnesses run first as corpus and are Lean regression examples.",
    "note": "Trusted: Lean kernel; the hand-written model (validated differentially, not verified) incl. encoding/binary varints; "
            "64-bit ints; uint32 ids; user codec functions modelled as identity on the payload bytes; inputs shorter than 2^45 bytes (8*len(input) allocatable).",
    "technique": "Lean 4 proof (round-trip lemmas by functional induction, registry invariants by induction over registration histories) "
                 "with differential correspondence against pkg/sr",
}
