from lib.pipeline import Prop
PROP = Prop(
    "C39", harness="sim", quick=["--mode", "sel"], thorough=["--mode", "sel"], harness_kind="test", tags="verif synctests", driver="C39",
    models=[("pkg/kgo/consumer_direct.go", ["directConsumer.findNewAssignments", "consumer.initDirect"]),
            ("pkg/kgo/consumer.go", ["consumer.filterMetadataAllTopics", "consumer.purgeTopics", "Client.RemoveConsumePartitions", "Client.AddConsumePartitions",
                                     "Client.AddConsumeTopics", "consumer.assignPartitions"]),
            ("pkg/kgo/topics_and_partitions.go", ["mtmps.remove", "mtmps.onlyt", "mtmps.add", "mtmps.addt"])],
    rule="scenario = direct consumer of this tree, 40%: ConsumeTopics(1-3 names, some not created yet, internal topics named explicitly) + ConsumePartitions(pinned partitions, some not existing yet), "
         "60%: ConsumeRegex with 1-2 include patterns and 0-2 exclude patterns, MetadataMinAge 50 ms / MaxAge 250 ms, ConsiderMissingTopicDeletedAfter 4 s (virtual), against a real kfake; a script of 16-29 steps: create a topic "
         "(10 names: matching, non-matching, two internal topics __consumer_offsets/__transaction_state and an internal one with an ordinary name, an internal-looking non-internal one), "
         "grow partitions, delete a topic, AddConsumeTopics, AddConsumePartitions, RemoveConsumePartitions (1-2 partitions, existing or not), PurgeTopicsFromConsuming, producer round "
         "(one record with a unique key to every partition of every existing topic), sleep; 1-3 polls after every step; "
         "70% of the scenarios carry a re-creation plan (own random stream): at a random step a topic (85% one the consumer selects) is deleted through the admin client and created again under the same name "
         "(new topic ID, 1-4 partitions) after 0.6-2.0 s (40%, shorter than the window) or 5.5-8 s (30%, longer), the script continuing in between, later producer rounds writing to the new incarnation, "
         "25% with a second deletion + re-creation; regex: the topic is deleted once the client has known it for the window + 2 s and re-created after the consumer received two metadata responses without it; "
         "named: the user purges and adds the re-created topic again (at once or up to 1 s later, and on every UNKNOWN_TOPIC_ID poll error); "
         "quiet end: producer round, 3 s of polls, producer round, at least 3 s (with a plan: 7 s = window + 3 s) of polls and until 4 empty ones; "
         "events: configuration, every call with arguments, topic creations with their incarnation number, every acknowledged and every returned record with the incarnation it was produced to, "
         "metadata responses delivered to the consumer (refresh marks); "
         "non-trivial = at least 5 returned records and at least 3 of the calls / growth / deletion steps",
    trusted_base=["history monitor Model.Select with the selection rule written from the property text and the documentation of the calls",
                  "regex matching of topic names is evaluated by Go's regexp in the harness and handed to the monitor as flags",
                  "ground truth = the harness's own call log and producer acknowledgements; refresh marks from the wire (Metadata responses on connections of the consumer's client id)",
                  "harness/sim (synctest bubble)", "Lean compiler/runtime for the driver"],
    assumptions=["all calls, producer rounds and polls of a scenario run in one goroutine (program order = event order)",
                 "coverage is judged after the script ended, two further producer rounds, six to ten seconds (virtual) of polls and four consecutive empty polls, for partitions that exist and are selected at the end, "
                 "for the records acknowledged by the CURRENT incarnation of their topic (a deleted and re-created topic is a new topic: records of a deleted incarnation are not owed; "
                 "they may still be returned until the first record of the new incarnation was returned, never after)",
                 "topic re-creation, regex selection: judged inside the envelope of the client's 'missing topic => deleted => purge' rule: the topic was known for longer than ConsiderMissingTopicDeletedAfter when it was deleted "
                 "and the client saw at least one metadata response without it before the re-creation (a younger topic, or one re-created between two refreshes, keeps cursors with the old topic ID on this tree "
                 "and stalls with UNKNOWN_TOPIC_ID: plan `y`, never generated, key C39.young-topic-recreated-at-once-never-consumed)",
                 "topic re-creation, named selection: the cursors deliberately keep the old topic ID (pkg/kgo/source.go cursor.topicID: 'stalls loudly ... the user must purge+re-add'); the scenario's user does purge and re-add",
                 "every partition is consumed from its start (ConsumeTopics default, AtStart for pinned partitions), so a re-selected partition re-delivers its records (not a C39 matter)",
                 "regex selection: a purged topic that still exists is re-selected at the next metadata refresh (documented on PurgeTopicsFromClient); a record of it before that refresh is refused",
                 "named selection: a whole topic whose existing partitions were all removed is no longer selected (documented on RemoveConsumePartitions)"],
    run_timeout={"quick": 900, "thorough": 3400},
)
MANIFEST = {
    "text": "Verified monitor: Lean theorems over ALL accepted histories of topic creation/growth/deletion interleaved with AddConsumeTopics, AddConsumePartitions, RemoveConsumePartitions, purges, "
            "producer rounds, polls and metadata refreshes: every returned record belongs to a partition selected at that moment; under regex selection only non-internal, matching, non-excluded topics; "
            "after RemoveConsumePartitions / PurgeTopicsFromConsuming nothing of the removed partitions returns unless re-selected by a later call (regex: only after a metadata refresh, never for a topic deleted "
            "before the purge); at the quiescent end every record acknowledged by the current incarnation of every existing selected partition was returned (incl. topics created later, grown partitions and topics deleted and "
            "re-created under the same name, inside and outside ConsiderMissingTopicDeletedAfter); once a record of a new incarnation of a topic was returned nothing of a deleted incarnation is. "
            "Tie: history correspondence with the real kgo direct consumer x kfake.",
    "note": "Trusted: Lean kernel; monitor vocabulary and selection rule; harness; Go regexp. Findings on this tree (known_findings.txt): a whole-topic selection is demoted by AddConsumePartitions "
            "and forgotten after a partial RemoveConsumePartitions (directConsumer.m conflates 'no pinned partitions' with 'whole topic'): later partitions are never consumed.",
    "technique": "Lean 4 proof over a history monitor with history correspondence against kgo x kfake in synctest bubbles",
}
