"""C17 — wire primitives encode and decode exactly (pkg/kbin/primitives.go and kmsg's private copy)."""
import os
from lib import pipeline as P
from lib.pipeline import Prop

PUB = "pkg/kbin/primitives.go"
PRIV = "pkg/kmsg/internal/kbin/primitives.go"


def _c17gen():
    """tie T: table `uvarintLens` + 'private copy is token-identical' fact, regenerated from the current source."""
    P.ensure_go_sum()
    out = os.path.join(P.BUILD, "c17gen")
    os.makedirs(P.BUILD, exist_ok=True)
    rc, o, e = P.sh(["go", "build"] + P.modfile_args() + ["-o", out, "./cmd/c17/c17gen"], cwd=P.HARNESS, env=P.GOENV, timeout=600)
    if rc != 0:
        raise RuntimeError("c17gen does not build: " + e[-1500:])
    rc, o, e = P.sh([out, os.path.join(P.REPO, PUB), os.path.join(P.REPO, PRIV)], timeout=60)
    if rc != 0:
        raise RuntimeError("c17gen refused the source: " + e[-1500:])
    return o


def _privcopy():
    """kmsg's private copy cannot be imported (internal/); it is copied verbatim, on every run, into a package of the
    harness so that the same ops run against it (`package kbin` in directory privkbin)."""
    src = open(os.path.join(P.REPO, PRIV)).read()
    return "// Code copied on every run by props/C17.py from " + PRIV + " of the tree under test. DO NOT EDIT.\n" + src


PROP = Prop(
    "C17",
    gen=[("FranzVerif/Gen/C17.lean", _c17gen),
         ("../harness/cmd/c17/privkbin/primitives.go", _privcopy)],
    models=[(PUB, ["AppendUvarint", "appendUvarlong", "Uvarint", "uvarlong", "Varint", "Varlong", "UvarintLen", "uvarlongLen",
                   "VarintLen", "VarlongLen", "AppendVarint", "AppendVarlong", "Reader.Span", "Reader.Bytes", "Reader.CompactBytes",
                   "Reader.ArrayLen", "Reader.CompactArrayLen", "Reader.VarintArrayLen", "Reader.VarintBytes", "Reader.Int16",
                   "Reader.Int32", "Reader.readUint64", "Reader.Uvarint", "Reader.Varint", "Reader.Varlong"])],
    rule="every op runs on pkg/kbin AND on the compiled private copy. enc: value -> bytes + length function; dec: bytes -> (value, n) for "
         "Uvarint/Varint/Varlong; rd: a Reader method sequence on one input. Pools: every 2^(7k)+{-1,0,1} (and zig-zag images), every "
         "continuation-bit structure of 0..6 / 0..11 bytes x boundary payloads and last-byte overflow values, random 32/64-bit values, "
         "length prefixes 0/1/127/128/16383/16384/32767/32768/65535, every reader method on truncations of valid encodings and on "
         "malformed input; sweep ops fold a hash over arithmetic progressions of values on both sides. non-trivial = not the "
         "single-byte / empty-input case (enc: >= 2 bytes or boundary value; dec: >= 2 input bytes; rd: >= 1 method with input >= 2 bytes). "
         "distinct = distinct op lines.",
    trusted_base=["harness/cmd/c17/c17gen (go/parser + go/scanner: extracts the uvarintLens constant, compares the two files' token streams)",
                  "hand-written Lean transcription of primitives.go (Model/C17.lean), tied by differential runs on both copies",
                  "bits.Len32/Len64, binary.BigEndian.*, math.Float64bits are modelled (Nat.log2, big-endian folds, identity on the 64 bits)",
                  "Lean compiler/runtime for the driver"],
    partial="proved: 32-bit decoder exactness, both varint encoders + all length functions, uvarint round trip, table and copy facts. "
            "Not proved (differential + Spec verdict only): uvarlong decoder exactness (the generated 10-level proof script exceeded the "
            "time budget), zig-zag bijection and hence Varint/Varlong round trips, fixed-width round trips, Reader laws.",
    assumptions=["Go `int` is 64 bits (int(uint32)-1 cannot wrap)",
                 "string/slice lengths passed to the length-prefixed encoders are < 2^15 (int16 prefix), < 2^31 (int32/varint prefix), "
                 "< 2^32-1 (compact prefix) for the round-trip theorems; outside, the code truncates the prefix exactly as the model does",
                 "UnsafeString aliasing is not modelled (treated as a copy)"],
)

MANIFEST = {
    "text": "Lean theorems (kernel-checked, all inputs): Uvarint returns exactly the reference LEB128 result on every byte string (n>0: value and "
            "bytes consumed; 0: input ran out; -5: more than 5 bytes or value does not fit 32 bits) and never indexes past the input; "
            "AppendUvarint and appendUvarlong append exactly the LEB128 bytes of every 32/64-bit value to any dst; UvarintLen/VarintLen/"
            "VarlongLen/uvarlongLen, through the uvarintLens table regenerated from the source, equal the encoded length; "
            "Uvarint(AppendUvarint(u) ++ rest) = (u, UvarintLen u) for every u; the reference reader inverts the reference writer. "
            "The private kmsg copy is token-identical (regenerated fact) and is compiled and run through the same ops. "
            "Tied only by the differential run + Spec verdict on both copies (not proved): the 10-byte decoder, zig-zag, fixed-width "
            "big-endian ints/float/uuid, length-prefixed encoders, every Reader method (consume exactly one encoding or invalidate).",
    "note": "Trusted: Lean kernel; the hand transcription of primitives.go (validated differentially against both compiled copies on every run, "
            "not verified); c17gen; Go's bits.Len/encoding/binary/math.Float64bits are modelled. 'Overlong' is read as 'more than 5/10 bytes'; "
            "non-minimal encodings such as 80 00 are accepted by the code and by the Kafka reference reader.",
    "technique": "Lean 4 proof (BitVec model -> Nat via toNat + omega, kernel only) with regenerated table/identity facts and differential correspondence",
}
