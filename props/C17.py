"""C17 — wire primitives encode and decode exactly (pkg/kbin/primitives.go and kmsg's private copy)."""
import os
from lib import pipeline as P
from lib.pipeline import Prop

PUB = "pkg/kbin/primitives.go"
PRIV = "pkg/kmsg/internal/kbin/primitives.go"


def _c17gen():
    """tie T: table `uvarintLens` + 'private copy is token-identical' fact, regenerated from the current source."""
    P.ensure_go_sum()
    out = os.path.join(P.BUILD, "c17gen")
    os.makedirs(P.BUILD, exist_ok=True)
    rc, o, e = P.sh(["go", "build"] + P.modfile_args() + ["-o", out, "./cmd/c17/c17gen"], cwd=P.HARNESS, env=P.GOENV, timeout=600)
    if rc != 0:
        raise RuntimeError("c17gen does not build: " + e[-1500:])
    rc, o, e = P.sh([out, os.path.join(P.REPO, PUB), os.path.join(P.REPO, PRIV)], timeout=60)
    if rc != 0:
        raise RuntimeError("c17gen refused the source: " + e[-1500:])
    return o


def _privcopy():
    """kmsg's private copy cannot be imported (internal/); it is copied verbatim, on every run, into a package of the
    harness so that the same ops run against it (`package kbin` in directory privkbin)."""
    src = open(os.path.join(P.REPO, PRIV)).read()
    return "// Code copied on every run by props/C17.py from " + PRIV + " of the tree under test. DO NOT EDIT.\n" + src


PROP = Prop(
    "C17",
    gen=[("FranzVerif/Gen/C17.lean", _c17gen),
         ("../harness/cmd/c17/privkbin/primitives.go", _privcopy)],
    models=[(PUB, ["AppendUvarint", "appendUvarlong", "Uvarint", "uvarlong", "Varint", "Varlong", "UvarintLen", "uvarlongLen",
                   "VarintLen", "VarlongLen", "AppendVarint", "AppendVarlong", "Reader.Span", "Reader.Bytes", "Reader.CompactBytes",
                   "Reader.ArrayLen", "Reader.CompactArrayLen", "Reader.VarintArrayLen", "Reader.VarintBytes", "Reader.Int16",
                   "Reader.Int32", "Reader.readUint64", "Reader.Uvarint", "Reader.Varint", "Reader.Varlong",
                   # modelled functions the fixed-width / length-prefixed / Reader-law theorems are about
                   "AppendBool", "AppendInt8", "AppendInt16", "AppendUint16", "AppendInt32", "AppendInt64", "AppendFloat64", "AppendUuid",
                   "appendUint64", "AppendUint32", "AppendString", "AppendCompactString", "AppendNullableString",
                   "AppendCompactNullableString", "AppendBytes", "AppendCompactBytes", "AppendNullableBytes", "AppendCompactNullableBytes",
                   "AppendVarintString", "AppendVarintBytes", "AppendArrayLen", "AppendCompactArrayLen", "AppendNullableArrayLen",
                   "AppendCompactNullableArrayLen", "Reader.Bool", "Reader.Int8", "Reader.Uint16", "Reader.Uint32", "Reader.Int64",
                   "Reader.Uuid", "Reader.Float64", "Reader.String", "Reader.CompactString", "Reader.NullableString",
                   "Reader.CompactNullableString", "Reader.NullableBytes", "Reader.CompactNullableBytes", "Reader.VarintString",
                   "Reader.Complete", "Reader.Ok"])],
    rule="every op runs on pkg/kbin AND on the compiled private copy. enc: value -> bytes + length function; dec: bytes -> (value, n) for "
         "Uvarint/Varint/Varlong; rd: a Reader method sequence on one input. Pools: every 2^(7k)+{-1,0,1} (and zig-zag images), every "
         "continuation-bit structure of 0..6 / 0..11 bytes x boundary payloads and last-byte overflow values, random 32/64-bit values, "
         "length prefixes 0/1/127/128/16383/16384/32767/32768/65535, every reader method on truncations of valid encodings and on "
         "malformed input; sweep ops fold a hash over arithmetic progressions of values on both sides. non-trivial = not the "
         "single-byte / empty-input case (enc: >= 2 bytes or boundary value; dec: >= 2 input bytes; rd: >= 1 method with input >= 2 bytes). "
         "distinct = distinct op lines.",
    trusted_base=["harness/cmd/c17/c17gen (go/parser + go/scanner: extracts the uvarintLens constant, compares the two files' token streams)",
                  "hand-written Lean transcription of primitives.go (Model/C17.lean), tied by differential runs on both copies",
                  "bits.Len32/Len64, binary.BigEndian.*, math.Float64bits are modelled (Nat.log2, big-endian folds, identity on the 64 bits)",
                  "Lean compiler/runtime for the driver"],
    partial="proved (Lean, all inputs): both unrolled decoders exact against the reference LEB128 reader (Uvarint 5 bytes/32 bits, uvarlong 10 bytes/"
            "64 bits: value + bytes consumed, (0,0) when the input ran out, (0,-5)/(0,-10) on overlong/overflow, no out-of-range index); Varint/Varlong "
            "exact against the signed reference; the Go zig-zag expressions equal the integer zig-zag maps and are inverse bijections on BitVec 32/64; "
            "both varint encoders + all four length functions; fixed-width encoders write big-endian two's complement (Spec.be) and every Reader "
            "fixed-width/varint/length-prefixed method returns exactly what the corresponding Append wrote (lengths < 2^15 / 2^31 / 2^32-1) and leaves "
            "exactly the following bytes; every one of the 26 Reader methods refines Spec.step on every well-formed reader (no panic, consumes exactly "
            "one well-formed encoding or invalidates, value = Spec value, source only shrinks), for sequences too (Ok() at the end iff every read was "
            "well-formed); an invalidated reader stays invalidated and returns the zero values; table and private-copy facts. "
            "Not proved (differential + Spec verdict only): the length-prefixed *encoders* against the Spec for out-of-range lengths (the prefix "
            "truncates; only the in-range round trips are theorems), AppendArrayLen-family for negative/huge l, UnsafeString aliasing, and of course "
            "the hand transcription Model/C17.lean itself (tied to both compiled copies by the differential run).",
    assumptions=["Go `int` is 64 bits (int(uint32)-1 cannot wrap)",
                 "string/slice lengths passed to the length-prefixed encoders are < 2^15 (int16 prefix), < 2^31 (int32/varint prefix), "
                 "< 2^32-1 (compact prefix) for the round-trip theorems; outside, the code truncates the prefix exactly as the model does",
                 "UnsafeString aliasing is not modelled (treated as a copy)"],
)

MANIFEST = {
    "text": "Lean theorems (kernel-checked, all inputs): Uvarint and uvarlong return exactly the reference LEB128 result on every byte string (n>0: "
            "value and bytes consumed; 0: input ran out; -5/-10: more than 5/10 bytes or value does not fit 32/64 bits) and never index past the "
            "input (uvarlong through a generic lemma about the unrolled loop, to which the transcription is definitionally equal); Varint/Varlong "
            "return exactly the signed reference result; the Go zig-zag expressions compute the protocol's integer zig-zag maps and are inverse "
            "bijections on all 32/64-bit values; AppendUvarint/appendUvarlong/AppendVarint/AppendVarlong append exactly the LEB128 bytes and the four "
            "length functions, through the uvarintLens table regenerated from the source, equal the encoded length; decode(encode v ++ rest) = (v, len) "
            "for all four; the fixed-width encoders write big-endian two's complement / the 64 float bits and the Reader's Bool/Int8/Int16/Uint16/Int32/"
            "Uint32/Int64/Float64/Uuid return exactly the value written and leave exactly the rest, short input invalidates; String/NullableString/"
            "CompactString/CompactNullableString/Bytes/NullableBytes/CompactBytes/CompactNullableBytes/VarintBytes/VarintString/ArrayLen/"
            "CompactArrayLen return exactly what the corresponding Append wrote for lengths in range; every one of the 26 Reader methods refines the "
            "Spec's reader contract step (no panic, consumes exactly one well-formed encoding else invalidates, value = Spec value, never past the "
            "input), also for any sequence of reads, so Ok()/Complete() is true at the end iff every read was well-formed; an invalidated reader stays "
            "invalidated, consumes nothing and returns the zero values (quirks proved as they are: CompactBytes gives the empty non-nil slice, "
            "CompactArrayLen gives -1). The private kmsg copy is token-identical (regenerated fact) and is compiled and run through the same ops. "
            "Tied only by the differential run + Spec verdict on both copies (not proved): length-prefixed encoders with out-of-range lengths "
            "(prefix truncation), and the correspondence of the hand-written model to the Go source.",
    "note": "Trusted: Lean kernel; the hand transcription of primitives.go (validated differentially against both compiled copies on every run, "
            "not verified); c17gen; Go's bits.Len/encoding/binary/math.Float64bits are modelled. 'Overlong' is read as 'more than 5/10 bytes'; "
            "non-minimal encodings such as 80 00 are accepted by the code and by the Kafka reference reader.",
    "technique": "Lean 4 proof (BitVec model -> Nat/Int via toNat/toInt + omega, induction on the unrolled loop, refinement of an executable reader Spec; kernel only) with regenerated table/identity facts and differential correspondence",
}
