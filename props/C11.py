from lib.pipeline import Prop
PROP = Prop(
    "C11", harness="sim", quick=["--mode", "txn"], thorough=["--mode", "txn"], harness_kind="test", tags="verif synctests", driver="C11",
    models=[("pkg/kgo/txn.go", ["Client.EndTransaction", "Client.BeginTransaction", "Client.doWithConcurrentTransactions"]),
            ("pkg/kfake/26_end_txn.go", []), ("pkg/kfake/txns.go", ["pids.create", "pidinfo.endTx"])],
    rule="scenario = one transactional producer running 2-8 transactions (1-6 records over 1-3 partitions, commit 65% / abort) against a real kfake (1-2 brokers) with faults on every "
         "request of the transactional sequence (InitProducerID, AddPartitionsToTxn, Produce, AddOffsetsToTxn, TxnOffsetCommit, EndTxn): connection killed before the broker saw the request, "
         "response lost after handling, injected COORDINATOR_LOAD_IN_PROGRESS / NOT_COORDINATOR / CONCURRENT_TRANSACTIONS on EndTxn, optional short transaction timeout with sleeps past it; "
         "client restart on a fatal producer state; history = begin/produce/promise/End call and result, fault decisions, and the read_committed and read_uncommitted views at the end; "
         "non-trivial = at least one fault or one transaction that did not commit",
    trusted_base=["history monitor Model.Txn", "harness/sim (synctest bubble, fault layer)", "the fresh read_committed consumer of this tree used for the final view (C04-C06 check it separately)",
                  "Lean compiler/runtime for the driver"],
    assumptions=["records are flushed before EndTransaction (as its documentation requires)"],
    run_timeout={"quick": 900, "thorough": 3400},
)
MANIFEST = {
    "text": "Verified monitor: Lean theorems over ALL accepted transaction histories: a reported commit makes every acknowledged record of the transaction visible; records of a transaction whose End "
            "reported abort, or that this client never ended, are never visible (also after later commits); records of a commit that reported an error are not visible unless the broker handled an "
            "EndTxn of that call and its response was lost (known finding: the documented 'outcome unconfirmed' error); nothing is visible twice or unproduced. Tie: history correspondence with a real "
            "transactional kgo producer x kfake under single and multiple fault placements on the transactional request sequence.",
    "note": "Trusted: Lean kernel; monitor vocabulary; harness. Theorems quantify over all histories; the correspondence samples fault placements and schedules in synctest bubbles.",
    "technique": "Lean 4 proof over a history monitor with history correspondence against kgo x kfake in synctest bubbles",
}
