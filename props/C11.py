from lib.pipeline import Prop
PROP = Prop(
    "C11", harness="sim", quick=["--mode", "txn,tofs"], thorough=["--mode", "txn,tofs"], harness_kind="test", tags="verif synctests", driver="C11",
    models=[("pkg/kgo/txn.go", ["Client.EndTransaction", "Client.BeginTransaction", "Client.doWithConcurrentTransactions",
                                "GroupTransactSession.End", "Client.commitTransactionOffsets", "Client.addOffsetsToTxn", "groupConsumer.commitTxn"]),
            ("pkg/kfake/26_end_txn.go", []), ("pkg/kfake/txns.go", ["pids.create", "pidinfo.endTx", "pids.doTxnOffsetCommit", "pids.doAddOffsets"])],
    rule="two scenario kinds. txn = one transactional producer running 2-8 transactions (1-6 records over 1-3 partitions, commit 65% / abort) against a real kfake (1-2 brokers) with faults on every "
         "request of the transactional sequence (InitProducerID, AddPartitionsToTxn, Produce, AddOffsetsToTxn, TxnOffsetCommit, EndTxn): connection killed before the broker saw the request, "
         "response lost after handling, injected COORDINATOR_LOAD_IN_PROGRESS / NOT_COORDINATOR / CONCURRENT_TRANSACTIONS on EndTxn, optional short transaction timeout with sleeps past it; "
         "client restart on a fatal producer state; history = begin/produce/promise/End call and result, fault decisions, and the read_committed and read_uncommitted views at the end. "
         "tofs = one or two GroupTransactSession member slots (a slot keeps its transactional id over restarts) consuming a pre-filled input topic of 1-3 partitions in 4-11 transactions: poll 1-5 "
         "records, produce 0-3 output records (40% of the transactions only consume), End(TryCommit) or End(TryAbort) (13%); kfake with transaction.version 2 (TxnOffsetCommit v5 adds the group "
         "implicitly) or downgraded to 0 (explicit AddOffsetsToTxn, v4 requests); no faults in 40% of the scenarios, otherwise the same fault layer on Produce, InitProducerID, AddPartitionsToTxn, "
         "AddOffsetsToTxn, TxnOffsetCommit, EndTxn (killed before handling, response dropped after handling, injected retriable codes / CONCURRENT_TRANSACTIONS on AddOffsetsToTxn, TxnOffsetCommit, "
         "EndTxn), optional 400 ms transaction timeout with sleeps past it, member closed inside a transaction without End (4%), abort retry by the application after an End error and restart of the "
         "member; history = per transaction the offsets it sets out to commit per partition (last polled + 1), produced ids and promises, End call and result, and right after every End the group's "
         "committed offset per input partition (OffsetFetch by a separate plain client, RequireStable false) and the coordinator's state of the transactional id (DescribeTransactions), fault "
         "decisions attributed to the transaction, the final group offsets and the read_committed view of the output topic; "
         "non-trivial = at least one fault, one transaction that did not commit, or (tofs) a committed transaction that produced nothing",
    trusted_base=["history monitors Model.Txn and Model.TxnOffsets", "harness/sim (synctest bubble, fault layer)",
                  "the fresh read_committed consumer of this tree used for the final view (C04-C06 check it separately)",
                  "kfake's OffsetFetch / DescribeTransactions answers used as ground truth for the group's committed offsets and the coordinator state",
                  "Lean compiler/runtime for the driver"],
    assumptions=["records are flushed before EndTransaction (as its documentation requires)",
                 "tofs, two members: an offset set out to be committed by a transaction whose End(TryCommit) is still in progress on the other member when the observation is logged counts as explained"],
    partial="observed_offsets_come_from_committed_transactions is proved at full strength for single-member scenarios; for several members the proved statement "
            "(observed_offsets_come_from_committed_transactions_partial) also admits a transaction whose End(TryCommit) call is in progress at the time of the observation and does not re-examine it when "
            "that End later reports an abort or an error. The End context is never cancelled by the scenarios (documented as unsafe by the client).",
    run_timeout={"quick": 900, "thorough": 3400},
)
MANIFEST = {
    "text": "Verified monitors: Lean theorems over ALL accepted transaction histories. Records (transactional producer, and GroupTransactSession): a reported commit makes every acknowledged record of "
            "the transaction visible; records of a transaction whose End reported abort, or that this client never ended, are never visible (also after later commits); records of a commit that "
            "reported an error are not visible unless the broker handled an EndTxn of that call and its response was lost (known finding: the documented 'outcome unconfirmed' error); nothing is "
            "visible twice or unproduced. Offsets (GroupTransactSession.End): when End reports a commit, the group's committed offsets read right after it are at least (single member: exactly) what "
            "the transaction set out to commit on every partition it polled from, and the coordinator has no open transaction for the id; every committed offset ever observed (after any End and at the "
            "end) was set out to be committed by a transaction whose End reported a commit, so the offsets of an aborted, failed or never-ended transaction are never committed, also not through a "
            "later transaction's commit (same known finding for an unconfirmed commit that took effect); after a reported abort or error the offsets are unchanged (single member). Tie: history "
            "correspondence with a real transactional kgo producer x kfake and real GroupTransactSession members x kfake (transaction.version 2 and 0; consume-only transactions; restarts; abort "
            "retries) under single and multiple fault placements on the transactional request sequence.",
    "note": "Trusted: Lean kernel; monitor vocabulary; harness; kfake's OffsetFetch/DescribeTransactions as ground truth. Theorems quantify over all histories; the correspondence samples fault "
            "placements and schedules in synctest bubbles. Two-member offsets statement is partial (see partial).",
    "technique": "Lean 4 proof over history monitors with history correspondence against kgo x kfake in synctest bubbles",
}
