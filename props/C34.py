from lib.pipeline import Prop
PROP = Prop(
    "C34",
    models=[("pkg/kfake/acl.go", ["acl.matchesResource", "acl.matchesPrincipal", "acl.matchesHost", "acl.matchesOp",
                                  "clusterACLs.allowed", "clusterACLs.anyAllowed", "Cluster.isSuperuser", "principal",
                                  "Cluster.allowedACL", "Cluster.allowedClusterACL", "Cluster.anyAllowedACL"]),
            ("pkg/kfake/22_init_producer_id.go", ["Cluster.handleInitProducerID"])],
    rule="one case = one ACL set with a full decision table: allowedACL for every (user, host, resource name, operation) and "
         "anyAllowedACL for every (user, host, operation) of the table's universe, evaluated in-process on the real kfake functions "
         "(verif export), or one ACL set installed through CreateACLs on a real kfake with SASL+ACLs and five InitProducerID requests. "
         "Generated: fixed witnesses; every single entry over 3 principals x 3 hosts x {*,a,ab,b} x {literal,prefixed} x 11 operations x "
         "{allow,deny}; every pair over a 384-entry alphabet; thorough adds every triple over a 96-entry alphabet and one eighth (by seed) "
         "of all ordered pairs over the 1584-entry alphabet; random sets of up to 12 entries; a malformed stream (values outside Kafka's "
         "domain, ''/ANONYMOUS super users; compared with the model, not judged). non-trivial = some entry of the set matches some query "
         "of the table (wire: some ALLOW entry applies to the client). distinct = distinct op lines.",
    trusted_base=["hand-written Lean model of pkg/kfake/acl.go (matchers, allowed, anyAllowed, superuser/principal glue) and of the ACL test of "
                  "handleInitProducerID, tied by differential decision tables against the real functions and through the wire",
                  "Spec: transcription from memory of Apache Kafka's StandardAuthorizerData.authorize/findResult and of "
                  "Authorizer/AclAuthorizer.authorizeByResourceType (no network in the sandbox)",
                  "creq.clientHost() (net address parsing) is exercised by the harness, not modelled",
                  "Lean compiler/runtime for the driver"],
    assumptions=["ACL entries are in Kafka's domain: permission ALLOW or DENY, pattern type LITERAL or PREFIXED (what kfake's CreateACLs admits)",
                 "neither '' nor 'ANONYMOUS' is configured as a super user (principal('') = principal('ANONYMOUS'))",
                 "the any-resource check is judged for operations other than DESCRIBE / DESCRIBE_CONFIGS: Kafka's authorizeByResourceType does not "
                 "apply implied operations while kfake's anyAllowed does; kfake and Kafka only ever ask it for WRITE on TOPIC "
                 "(theorem anyAllowed_implied_op_differs records the difference)",
                 "allow.everyone.if.no.acl.found=false (Kafka's default)"],
    partial="anyAllowed = authorizeByResourceType is FALSE of the current code (anyAllowed_ne_authorizeByResourceType, decided witness); proved instead: "
            "equality when no DENY entry is relevant to the request (anyAllowed_eq_partial), one-sidedness (anyAllowed_complete: kfake never denies what "
            "Kafka allows), and that the proposed repair equals Kafka's rule (anyAllowedRepaired_eq).",
)
MANIFEST = {
    "text": "Lean theorems for every ACL list and request: kfake's allowed (and allowedACL with the superuser short-circuit) equals Kafka's "
            "StandardAuthorizer authorize (DENY over ALLOW, ALL, implied Describe/DescribeConfigs for ALLOW only, literal/wildcard/prefixed patterns, "
            "User:*, host *). kfake's anyAllowed equals Kafka's authorizeByResourceType only when no DENY entry is relevant; the full equality is "
            "refuted by a decided witness and the differential check reports that class on the real code (in-process and through InitProducerID on the wire) "
            "under the stable key anyallowed-ignores-deny. The model is tied to the code by exhaustive small-scope decision tables and random larger sets.",
    "note": "Trusted: Lean kernel; the hand-written model (validated differentially, not verified); the Kafka authorizer rules as transcribed from memory; "
            "entries restricted to Kafka's domain; ''/ANONYMOUS not super users; any-resource check judged for non-implied operations only.",
    "technique": "Lean 4 proof (induction over the ACL list against a filter-style specification, decided counterexample for the failing half) "
                 "with differential correspondence against kfake in-process and over the wire",
}
