from lib.pipeline import Prop
PROP = Prop(
    "C34",
    models=[("pkg/kfake/acl.go", ["acl.matchesResource", "acl.matchesPrincipal", "acl.matchesHost", "acl.matchesOp",
                                  "clusterACLs.allowed", "clusterACLs.anyAllowed", "Cluster.isSuperuser", "principal",
                                  "Cluster.allowedACL", "Cluster.allowedClusterACL", "Cluster.anyAllowedACL"]),
            ("pkg/kfake/22_init_producer_id.go", ["Cluster.handleInitProducerID"])],
    rule="one case = one ACL set with a full decision table: allowedACL for every (user, host, resource name, operation) and "
         "anyAllowedACL for every (user, host, operation) of the table's universe, evaluated in-process on the real kfake functions "
         "(verif export), or one ACL set installed through CreateACLs on a real kfake with SASL+ACLs and five InitProducerID requests. "
         "Generated: fixed witnesses; every single entry over 3 principals x 3 hosts x {*,a,ab,b} x {literal,prefixed} x 11 operations x "
         "{allow,deny}; every pair over a 384-entry alphabet; thorough adds every triple over a 96-entry alphabet and one eighth (by seed) "
         "of all ordered pairs over the 1584-entry alphabet; random sets of up to 12 entries; a malformed stream (values outside Kafka's "
         "domain, ''/ANONYMOUS super users; compared with the model, any-resource bits judged). non-trivial = some entry of the set matches some query "
         "of the table (wire: some ALLOW entry applies to the client). distinct = distinct op lines.",
    trusted_base=["hand-written Lean model of pkg/kfake/acl.go (matchers, allowed, anyAllowed, superuser/principal glue) and of the ACL test of "
                  "handleInitProducerID, tied by differential decision tables against the real functions and through the wire",
                  "Spec: transcription from memory of Apache Kafka's StandardAuthorizerData.authorize/findResult and of "
                  "Authorizer/AclAuthorizer.authorizeByResourceType (no network in the sandbox)",
                  "creq.clientHost() (net address parsing) is exercised by the harness, not modelled",
                  "Lean compiler/runtime for the driver"],
    assumptions=["for the authorize half (allowed, and the cluster / transactional-id halves of InitProducerID): ACL entries are in Kafka's domain, "
                 "permission ALLOW or DENY and pattern type LITERAL or PREFIXED (what kfake's CreateACLs admits; a matching entry with another permission value "
                 "counts as an ALLOW in allowed). The any-resource half needs no such assumption and is judged on malformed sets too",
                 "neither '' nor 'ANONYMOUS' is configured as a super user (principal('') = principal('ANONYMOUS'))",
                 "allow.everyone.if.no.acl.found=false (Kafka's default)",
                 "Kafka's by-resource-type rule is taken in the AclAuthorizer / interface-default-loop form; StandardAuthorizer's extra 'hardcode' probe "
                 "provably changes nothing for operations that no other operation implies (theorem hardcode_probe_redundant); Kafka only asks for WRITE"],
    partial="",
)
MANIFEST = {
    "text": "Lean theorems for every ACL list and request: kfake's allowed (and allowedACL with the superuser short-circuit) equals Kafka's "
            "StandardAuthorizer authorize (DENY over ALLOW, ALL, implied Describe/DescribeConfigs for ALLOW only, literal/wildcard/prefixed patterns, "
            "User:*, host *); kfake's anyAllowed (and anyAllowedACL) equals Kafka's authorizeByResourceType (wildcard-literal DENY denies; an ALLOW pattern "
            "counts only if no DENY literal of the same name and no non-empty DENY prefix dominates it; operation equal or ALL) with no hypothesis on the "
            "entries; the ACL test of InitProducerID is Kafka's. The model is tied to the code by exhaustive small-scope decision tables, random larger "
            "sets and InitProducerID requests through the wire against a real kfake with SASL+ACLs. The check found that anyAllowed ignored DENY entries; "
            "repaired in /repo 46d17aa, the old failing inputs are replayed first on every run (corpus/C34) and would be reported under the key "
            "anyallowed-ignores-deny.",
    "note": "Trusted: Lean kernel; the hand-written model (validated differentially, not verified); the Kafka authorizer rules as transcribed from memory; "
            "authorize half restricted to entries of Kafka's domain; ''/ANONYMOUS not super users; creq.clientHost() exercised, not modelled.",
    "technique": "Lean 4 proof (induction over the Go loops against a filter-style specification of Kafka's rules) "
                 "with differential correspondence against kfake in-process and over the wire",
}
