from lib.pipeline import Prop
PROP = Prop(
    "C10", harness="sim", quick=["--mode", "eos"], thorough=["--mode", "eos"], harness_kind="test", tags="verif synctests", driver="C10",
    models=[("pkg/kgo/txn.go", ["GroupTransactSession.End", "GroupTransactSession.Begin", "GroupTransactSession.failed"])],
    rule="scenario = 80-330 input records, 2-4 GroupTransactSession members (eager, cooperative or KIP-848 group) polling 1-9 records, producing one output per input inside a transaction "
         "and ending it (10% aborts), with members stopping and new ones starting while the input is processed, against a real kfake (1-2 brokers, 2-5 partitions) with faults on Produce, "
         "TxnOffsetCommit and EndTxn (connection killed before handling, response lost after handling, injected coordinator errors); history = inputs, each transaction's polled ids, End results and "
         "the read_committed view of the output topic; non-trivial = at least 3 member instances, a transaction that did not commit or at least 4 instances, and all input processed",
    trusted_base=["history monitor Model.Eos", "harness/sim", "the fresh read_committed consumer of this tree used for the final view", "Lean compiler/runtime for the driver"],
    assumptions=["scenarios that do not finish processing the input within the virtual time budget are marked incomplete and only judged for duplicates and foreign outputs"],
    run_timeout={"quick": 1500, "thorough": 3400},
)
MANIFEST = {
    "text": "Verified monitor: Lean theorems over ALL accepted pipeline histories: at the end the read_committed view of the output holds every input record's output exactly once, only outputs "
            "of inputs, each written by the transaction whose polled batch contained it. Tie: history correspondence with real GroupTransactSession members x kfake under member churn (joins, "
            "leaves, restarts), rebalances around TxnOffsetCommit/EndTxn and connection failures on produce, commit and EndTxn requests.",
    "note": "Trusted: Lean kernel; monitor vocabulary; harness. The composition argument (C07 ownership + C11 truthful End + offsets inside the transaction => exactly once) is not proved at the model "
            "level; exactly-once is checked on the real output of every scenario. Theorems quantify over all histories; the correspondence samples schedules.",
    "technique": "Lean 4 proof over a history monitor with history correspondence against kgo x kfake in synctest bubbles",
}
