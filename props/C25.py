from lib.pipeline import Prop
PROP = Prop(
    "C25",
    models=[("pkg/kgo/group_balancer.go", ["rangeBalancer.Balance", "roundRobinBalancer.Balance", "BalancePlan.AdjustCooperative",
                                           "joinMemberLess", "NewConsumerBalancer", "stickyBalancer.Balance"]),
            ("pkg/kfake/groups.go", ["group.computeTargetAssignment", "group.assignUniform", "group.assignRange"])],
    rule="one case = one balancer on one group (members with subscriptions, racks, prior ownership + generation; topics with partition "
         "counts and partition racks). Small-scope enumeration (<=3 members x <=2 topics x <=3 partitions, every subscription pattern, "
         "every claimant set per partition incl. conflicting claims, stale-generation patterns; trimmed in quick), random structured groups "
         "(previous assignment perturbed: new members, stale generations, conflicting claims, unknown/shrunk topics, unsubscribed owners, "
         "duplicate ids/topics), groups up to 200 members x 50 topics. For sticky / cooperative-sticky additionally the engine's complex path "
         "(steal-graph search): 3-8 members with different, overlapping subscriptions over 4-12 topics of 1-6 partitions, prior ownership skewed "
         "(one or two members own nearly all they can take, some own nothing), then perturbed (stale / duplicate claims, dropped topics, members "
         "left / joined); the C26 generator's sparse / ring shapes; and a mutation stream (1-3 rounds of small edits of subscriptions, ownership, "
         "partition counts, membership, member naming, generations) over known-hard seeds (the steal-back input of "
         "seeded/C25-steal-back-keeps-old-edge and 12 more, bal/seeds.go, also run from corpus/C25) and over fresh groups. The engine numbers "
         "topics in Go map iteration order, so each such input is balanced 8-16 times by one op (`sticky@R` / `coop@R`; coop: two engine runs "
         "per repetition) and the Spec is evaluated on every distinct output (#stat sticky_engine_runs counts the runs). "
         "non-trivial = at least 2 members and at least 2 partitions to assign. distinct = distinct op lines.",
    trusted_base=["hand-written models of range / round-robin Balance, AdjustCooperative and kfake computeTargetAssignment+assignUniform+assignRange, "
                  "tied to the code by exact differential runs through the public balancer interfaces and a verif hook",
                  "the sticky engine (pkg/kgo/internal/sticky) is NOT modelled or proved: ValidPlan is evaluated on its real output for every generated case",
                  "harness generators and canonical printing; Lean compiler/runtime for the driver"],
    assumptions=["partition counts are non-negative; owned/prior partitions are non-negative int32 (negative claims are not generated)",
                 "topic and member names are ASCII (Go byte order = Lean string order)",
                 "members with the same static instance id are unordered for Go's unstable sort: the model output is not compared there, only the Spec"],
    partial="Sticky / cooperative-sticky engine validity is checked on outputs, not proved (the engine is not modelled).",
)
MANIFEST = {
    "text": "Lean theorems, for groups of any size and every input: the models of range (with rack phase), round-robin, kfake assignRange and kfake "
            "assignUniform (arbitrary prior targets, conflicting claims included) return a plan in which every partition of every subscribed topic is "
            "assigned exactly once, to a subscriber, and nothing else; AdjustCooperative applied to any valid plan leaves a partition unassigned only when "
            "a current owner is losing it. The models are tied to the code by exact differential runs (public GroupBalancer/ConsumerBalancer interfaces; "
            "kfake via a verif hook). Sticky and cooperative-sticky validity itself is checked on the real engine's output for every generated input "
            "(subscriptions listing a topic twice included), not proved; inputs on the engine's complex path (uneven subscriptions, skewed priors, "
            "mutations of known-hard inputs) are balanced 8-16 times each because the engine's outcome depends on Go map iteration order.",
    "note": "Trusted: Lean kernel; the hand-written models (validated differentially, not verified against the Go source); generators. "
            "Not proved: internal/sticky. Two defects found by this check were repaired in /repo (31831e3 kfake assignUniform double-assigned on conflicting "
            "prior targets; 67aaac1 a topic listed twice in a subscription made sticky assign to a non-subscriber); their witnesses run first from "
            "corpus/C25 and their stable keys (kfake-uniform-conflicting-priors, sticky-duplicate-subscription) are kept in the driver. "
            "A sticky-engine defect that needs a rare search order shows only with the probability the generated inputs reach it "
            "(seeded/C25-steal-back-keeps-old-edge: about 550 failing evaluations per quick run, about 55 of them outside the seed-based stream).",
    "technique": "Lean 4 proof (induction over members/topics/partitions) with differential correspondence and output-checked Spec for the unmodelled sticky engine",
}
