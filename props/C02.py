from lib.pipeline import Prop
PROP = Prop(
    "C02", harness="sim", quick=["--mode", "idem"], thorough=["--mode", "idem"], harness_kind="test", tags="verif synctests", driver="C02",
    models=[("pkg/kgo/sink.go", ["sink.handleReqClientErr", "sink.handleReqRespBatch", "sink.handleRetryBatches", "recBuf.failAllRecords", "recBuf.resetBatchDrainIdx"])],
    rule="scenario = idempotent kgo producer (1-3 goroutines x 10-70 records, manual partitioner over 1-3 partitions, linger 0-10ms, optional record timeout, retry limits 1/3/20, "
         "a mode with one record per batch) x real kfake (1-3 brokers, leader moves) in a synctest bubble; faults per produce request: connection killed before kfake saw it, "
         "kfake handled it and the response was swallowed, injected retriable codes (NOT_LEADER, REQUEST_TIMED_OUT, NOT_ENOUGH_REPLICAS, LEADER_NOT_AVAILABLE); history = calls, promises, "
         "the wire view of every produce batch and answer at the broker side, and the log read back by a fresh consumer; non-trivial = some request lost/killed, some failed promise or some retry",
    trusted_base=["history monitor Model.Idem", "harness/sim fault layer and wire parser (kmsg)", "the fresh consumer of this tree used to read the log back (C04/C06 check it separately)",
                  "Lean compiler/runtime for the driver"],
    assumptions=["AllowIdempotentProduceCancellation is not set", "records are uncompressed on the wire in this harness"],
    run_timeout={"quick": 900, "thorough": 3400},
)
MANIFEST = {
    "text": "Verified monitor: Lean theorems over ALL accepted histories: every success promise names the one log entry of its record, acked records of one partition are in produce order, "
            "a failed record is not in the log, no record is in the log twice; wire rule: a sequence number of one (producer id, epoch, partition) is reused only for a retry of the same batch "
            "or after that batch was failed. Tie: history correspondence with real kgo x kfake scenarios under lost responses, killed connections, retriable codes, leader moves and retry limits.",
    "note": "Trusted: Lean kernel; monitor vocabulary; the harness (fault layer, wire parsing, read-back consumer). The theorem quantifies over all histories; the correspondence samples "
            "schedules and fault sequences in synctest bubbles.",
    "technique": "Lean 4 proof over a history monitor with history correspondence against kgo x kfake in synctest bubbles",
}
