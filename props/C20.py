from lib.pipeline import Prop
PROP = Prop(
    "C20",
    models=[("pkg/kgo/record_formatter.go", ["RecordFormatter.AppendRecord", "NewRecordFormatter", "parseNumWriteLayout", "RecordReader.next",
                                             "RecordReader.ReadRecordInto", "RecordReader.parseReadLayout", "RecordReader.parseReadSize",
                                             "RecordReader.readSize", "RecordReader.readExact", "RecordReader.readCondition",
                                             "decodeHex", "decodeBase64", "dupslice", "writeNumASCII", "writeNumHex64", "writeNumBig32",
                                             "writeNumLittle16", "writeNumBool", "appendHex", "appendBase64"])],
    rule="each case is one layout of the size-prefixed / fixed-width fragment (AST printed as a layout string with random aliases, brace forms and "
         "escapes) with either k records (op rt: the real formatter writes them, a real reader with the same layout string reads the stream until it "
         "fails; formatted bytes, every record read and the final io.EOF / io.ErrUnexpectedEOF / other error are compared with the model, and the "
         "Spec -- records read = records written restricted to the layout's fields, then io.EOF -- is evaluated on the implementation's reader results) "
         "or raw bytes for the reader (op rd: truncated / mutated / hostile-size formatter output; model and implementation compared). The generator "
         "starts with the exhaustive small scope {6 numeric verbs} x {14 number formats} x {31 boundary values: 0,1,9,10,127,128,255,256,2^15,2^16,2^31-1,"
         "2^31,2^32,-1,int64 extremes ...}, {3 text verbs} x {plain,hex,base64} x {14 size formats} x {10 lengths}, {14 header-count formats} x {3 encodings} "
         "x {0..3 headers}, then random layouts (0-3 sized texts, 0-6 numeric verbs, optional %H/%h{} block, literals incl. % { } \\ and bytes >= 0x80) "
         "with 0-5 records (nil/empty/random/digit-like/base64-like bytes, lengths up to 131072, up to 257 headers, numeric pools across every width "
         "boundary); half of the random cases stay inside the class of roundtrip_partial (plain text, non-negative ascii). "
         "non-trivial = rt with at least one record and at least one verb, or rd with a non-empty stream. distinct = distinct op lines.",
    trusted_base=["hand-written model of the formatter closures and of RecordReader.next / parseReadSize / readSize / readExact / readCondition / hex and base64 "
                  "decoding (Model/C20.lean), tied to the code by the differential run (formatted bytes, every field of every record read back incl. nil-ness, "
                  "terminal error class)",
                  "the layout *string* parsers (NewRecordFormatter, parseReadLayout, parseLayoutSlash) are exercised, not modelled: harness/cmd/c20 prints the layout "
                  "AST as a string (random aliases ascii/number, byte/big8/little8, %k vs %k{}, escapes \\t \\n \\r \\\\ \\xNN, %% %{ %}, raw bytes) and the model interprets the AST",
                  "harness/cmd/c20 (generator, record printing: timestamps as UnixNano or z for the zero time, nil as -, empty as .)",
                  "Go's encoding/hex, encoding/base64, strconv.AppendInt/ParseUint, bufio.Reader are transcribed in the model (behaviour compared differentially), not verified",
                  "Lean compiler/runtime for the driver"],
    assumptions=["the record is a kgo.Record (RecOK): numeric fields within their Go types, lengths < 2^63, and a timestamp whose UnixNano is defined "
                 "(years 1678-2262; the zero time.Time is outside)",
                 "'within the layout's width' (Fits): a fixed-width format at least as wide as the field's Go type carries every value (two's complement); a narrower one "
                 "carries 0 <= v < 2^width; {bool} carries 0/1; {ascii} has no width, so every value is within it (this is what makes negative ascii numbers a finding)",
                 "Unambiguous: every {ascii} number is directly followed, in the same (inner) layout, by a literal whose first byte is not a digit or sign",
                 "the timestamp is recovered at millisecond precision (the layout language prints milliseconds); nil and empty keys / values / header values are "
                 "not distinguished (the size-prefixed formats cannot express nil; the reader returns nil for both)",
                 "fragment: literals; %T %K %V %H %p %o %e %d %x %y x {ascii, hex64/32/16/8/4, big64/32/16, little64/32/16, byte, bool}; %t %k %v x {plain, hex, base64} "
                 "each after its size verb; one %h{} block of literals / %K %V / %k %v after %H. Not covered: delimiter/regexp/json text, {N} sizes, {hex} numbers, "
                 "base64raw, unpack, %a %i %D %A %[ %| %], go/strftime timestamps"],
    partial="The property as given is false of the code in two classes; what is proved for all inputs is roundtrip_partial / stream_partial / spec_stream_partial with the classes "
            "excluded by PlainText L (no sized {hex}/{base64} text) and NonNegAscii L r (no negative {ascii} number). roundtrip_false_encoded_text (witness %K{byte}%k{hex}\\n, key ab) "
            "and roundtrip_false_negative_ascii (witness %o\\n, offset -1) are the decided refutations of the full statement; the driver reports the classes as "
            "0:size-of-encoded-text and 0:negative-ascii-number.",
)
MANIFEST = {
    "text": "Lean theorems over a layout AST for the size-prefixed / fixed-width fragment of the record layout language: for every well-formed unambiguous layout with plain "
            "sized text, every kgo.Record whose numeric fields fit the widths the layout gives them (negative values in formats at least as wide as the Go type included) with "
            "non-negative {ascii} numbers, and every continuation of the stream, the model of RecordReader.next on the model of RecordFormatter's output returns exactly the "
            "record restricted to the layout's fields, consumes exactly the formatter's bytes, and ReadRecord over a formatted stream returns the records in order and io.EOF "
            "exactly at the end. The model is tied to the code by differential runs (formatter bytes, reader results, error class; also on truncated and corrupted streams). "
            "The full statement is refuted, with machine-checked witnesses, for sized {hex}/{base64} text and for negative {ascii} numbers (two recorded findings).",
    "note": "Trusted: Lean kernel; the hand-written model (validated differentially, not verified); the layout string parsers are exercised through a random AST printer but not "
            "modelled; hex/base64/strconv/bufio behaviour transcribed; timestamps within int64 nanoseconds and recovered at millisecond precision; nil and empty byte fields "
            "identified. Known findings: size-of-encoded-text (formatter prints raw lengths, reader consumes encoded bytes), negative-ascii-number (formatter prints signed "
            "decimals, reader parses unsigned).",
    "technique": "Lean 4 proof (induction over the layout AST and the header list, decimal/hex/binary number codecs by induction, omega for the two's-complement width arithmetic) "
                 "with differential correspondence against pkg/kgo",
}
