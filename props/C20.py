from lib.pipeline import Prop
PROP = Prop(
    "C20",
    models=[("pkg/kgo/record_formatter.go", ["RecordFormatter.AppendRecord", "NewRecordFormatter", "parseNumWriteLayout", "RecordReader.next",
                                             "RecordReader.parseReadLayout", "RecordReader.parseReadSize", "RecordReader.readSize",
                                             "RecordReader.readExact", "RecordReader.readCondition", "decodeHex", "decodeBase64", "dupslice"])],
    rule="todo",
    trusted_base=[],
    assumptions=[],
)
MANIFEST = {"text": "todo", "note": "todo", "technique": "todo"}
