from lib.pipeline import Prop
PROP = Prop(
    "C07", harness="sim", quick=["--mode", "grp"], thorough=["--mode", "grp"], harness_kind="test", tags="verif synctests", driver="C07",
    models=[("pkg/kgo/consumer_group.go", ["groupConsumer.manage", "groupConsumer.revoke", "groupConsumer.setupAssignedAndHeartbeat", "groupConsumer.handleSyncResp", "groupConsumer.leave"]),
            ("pkg/kgo/consumer_group_848.go", ["g848.handleResp"]), ("pkg/kfake/groups.go", ["group.computeTargetAssignment"])],
    rule="scenario = 2-4 member slots of one consumer group (range / round-robin / sticky / cooperative-sticky / KIP-848, with or without BlockRebalanceOnPoll, autocommit every 100-1000 ms) "
         "joining at different times, polling (PollFetches / PollRecords(1..8)) with processing pauses, leaving by Close and restarting 0-2 times, against a real kfake (1-2 brokers, 2-7 partitions) while a "
         "producer writes 100-400 records; then a long stable phase and graceful shutdown; history = every rebalance callback (entered/returned, partitions), polls and returned records, every commit request's "
         "per-partition result, the group's final committed offsets; non-trivial = at least two members joined, at least one non-empty revocation and one successful commit",
    trusted_base=["history monitor Model.Group", "callback/poll events are logged where the client calls them (one log mutex = linearisation)", "harness/sim (synctest bubble)", "Lean compiler/runtime for the driver"],
    assumptions=["members leave gracefully (Close)", "stability is judged 12 s (virtual) after the last membership change with session timeout 6 s and rebalance timeout 4 s"],
    run_timeout={"quick": 1200, "thorough": 3400},
)
MANIFEST = {
    "text": "Verified monitor: Lean theorems over ALL accepted group histories: when a partition passes from one member to another, a revoked or lost callback of the previous owner that "
            "listed it completed in between; a member whose Close returned owns nothing; at the stability mark every partition has a live owner. Tie: history correspondence with real kgo "
            "group members x kfake for eager, cooperative-sticky and KIP-848 groups under joins, leaves and restarts.",
    "note": "Trusted: Lean kernel; monitor vocabulary; harness. Subscription changes (AddConsumeTopics, regex) and partition additions are not generated yet. Theorems quantify over all histories; "
            "the correspondence samples schedules inside synctest bubbles.",
    "technique": "Lean 4 proof over a history monitor with history correspondence against kgo x kfake in synctest bubbles",
}
