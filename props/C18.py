from lib.pipeline import Prop
S = "pkg/kgo/sink.go"
PROP = Prop(
    "C18",
    models=[(S, ["recBuf.bufferRecord", "recBatch.tryBuffer", "recBatch.calculateRecordNumbers", "recordNumbers.wireLength",
                 "recBatch.appendRecord", "recBuf.newRecordBatch", "recBatch.v0wireLength", "recBatch.batchLength",
                 "recBatch.flexibleWireLength", "recBatch.wireLengthForProduceVersion", "messageSet0Length", "messageSet1Length",
                 "uvar32", "uvarlen", "produceRequest.tryAddBatch", "sink.createReq", "Client.baseProduceRequestLength",
                 "Client.maxRecordBatchBytesForTopic", "produceRequest.AppendTo", "seqRecBatch.appendTo", "promisedRec.appendTo",
                 "seqRecBatch.appendToAsMessageSet", "appendMessageTo"]),
            ("pkg/kmsg/api.go", ["RequestFormatter.AppendRequest"])],
    rule="req: one op = a producer configuration (produce version 0-13, version known to the sink or not, ids, acks, limits, compressor) and the "
         "records of 1..260 partitions; the real client buffers them (recBuf.bufferRecord), builds requests (sink.createReq/tryAddBatch) and "
         "serialises them (AppendRequest/AppendTo); generators: small random requests, varint/compact-prefix boundary sizes, many one-record "
         "partitions packed to BrokerMaxWriteBytes, one partition filled to ProducerBatchMaxBytes with single records swept across the limit, "
         "real codecs (gzip/snappy/lz4/zstd, preferences) and toy compressors with controlled output sizes; records with 0-3 headers of 0-700 "
         "header bytes (a message, Produce v0-v2, drops them; a v2 record carries them): a fixed grid of single records whose one-record "
         "batch is maxBatchBytes-4..+6/+20/+40 with 0/60/200 header bytes at written versions 2,3,8,9,13 (thorough: every version 0-13, "
         "-8..+12/+-20/+-40/+100, seven header sizes), version unknown and known, and random single / packed partitions whose batch reaches "
         "maxBatchBytes-40..+40 through a header-heavy record (incl. records that fit only if their headers are not counted), each buffered "
         "with the sink version unknown (62 %), equal to the written version (34 %) or (4 %, outside the assumption below: listed findings) a known "
         "other version, against every written version 0-13; the Spec's batch and request bounds are evaluated on the written bytes of every "
         "case. wire: real client through the public "
         "API against the real kfake, frames captured at the dialer. Non-trivial = at least one request with at least one batch was written. "
         "distinct = distinct op lines.",
    trusted_base=["hand-written model of the producer's batching, accounting and serialisers (Model/C18.lean), tied by byte-exact differential runs "
                  "through the verif hook kgo.VerifC18Run (real bufferRecord, createReq, AppendRequest) on every produce version",
                  "Spec/C18.lean: independent strict reference decoder of produce requests (written from the Kafka protocol description, trusted)",
                  "Nat-level LEB128/zig-zag/big-endian primitives of Spec.C17 (proved equal to kbin's in Props.C17)",
                  "CRC-32C, CRC-32 and compression codecs: parameters of model and theorems; the driver uses its own table-driven CRCs and the "
                  "compressor's recorded answers (codecs modelled, not verified; harness checks compress->decompress round trip of the real codecs)",
                  "order of topics/partitions inside a request (Go map iteration) is read from the implementation's bytes",
                  "Lean compiler/runtime for the driver"],
    assumptions=["no int32 overflow in the size arithmetic: every length below 2^31 (limits are at most 2^30 by config validation; a single record "
                 "of 2 GiB or more is outside the model)",
                 "no concurrent failAllRecords / bumpRepeatedLoadErr while a request is serialised (the null-records arm of AppendTo is not modelled)",
                 "the sink's known produce version is either unknown (-1) or the version the request is written at; generated ops are normalised to "
                 "this. Where it fails in the real client (KIP-890-part-2 flag changing after the first response; a v13 sink meeting a topic "
                 "without id; a broker dropping below v3) the size accounting is for the wrong layout and both limits can be exceeded: listed "
                 "findings request-over-limit-/batch-over-max-when-written-version-differs-from-sink-version, replayed by corpus/C18/003 on every run"],
    partial="decode(encode) round trip proved for Produce v3-v13 without compressor; with a compressor and for message sets (v0-v2) it is checked "
            "only differentially by the same reference decoder. Request bound proved for every version 0-13 when the sink knows the version it "
            "writes at; while the version is unknown (first request) it is proved for every written version, for flexible ones under: every topic "
            "fits the estimate max(2+lt+4, 21) (v13: < 2^28-1 partitions; v9-v12: compact lengths of name and partition count <= 5 bytes, e.g. "
            "name <= 126 bytes or < 2^21-1 partitions) and (< 16383 topics or a spare byte per topic). All theorems assume sink version = -1 or "
            "the written version; the two listed findings are exactly the violations outside that assumption. Batch bound proved for record "
            "batches and for message sets buffered at the written (or an unknown) version; records are arbitrary (any list of headers): "
            "batch_bound_counts_headers restates the bound in key+value+header bytes, oversized_rejected / oversized_with_headers_rejected "
            "prove that a record whose one-record batch (headers included) would reach the limit is failed, under record-batch accounting "
            "(version unknown or >= 3).",
    run_timeout={"quick": 900, "thorough": 3000},
)
MANIFEST = {
    "text": "Lean theorems over a function-by-function model of kgo's producer batching (bufferRecord/tryBuffer/calculateRecordNumbers), request "
            "building (createReq/tryAddBatch) and serialisers (AppendTo/appendTo/appendToAsMessageSet/appendMessageTo/AppendRequest): for all record "
            "sets, configurations and compressors the accounted batch length is exactly what is written (<= when compressed), every record batch "
            "stays below the configured maximum (records with arbitrary headers; restated in key+value+header bytes), a record is rejected only when it "
            "does not fit an empty batch and is rejected when its one-record batch with all its headers would reach the limit, createReq's running wireLength equals "
            "a closed form and is at most BrokerMaxWriteBytes, a written request is within BrokerMaxWriteBytes for every produce version 0-13 (version "
            "known to the sink; with side conditions while it is unknown), message sets stay below the configured batch maximum, and (v3-v13, no "
            "compressor) the independent strict reference decoder reads back from the written frame exactly the buffered records in order with "
            "consistent lengths, CRC span, deltas, attributes and producer id/epoch/sequence (decode . encode theorem). The model is tied to the code by byte-exact differential runs of the real batching and "
            "serialisation path on every produce version, and every written request is decoded by an independent strict reference decoder (Spec) that "
            "checks records, order, lengths, CRC span, deltas, attributes, producer id/epoch/sequence and both size limits.",
    "note": "Trusted: Lean kernel; the hand-written model (validated differentially, byte for byte); the reference decoder; CRCs and codecs as parameters. "
            "Not proved in Lean: the decode(encode) round trip with a compressor and for message sets (differential only). The defects the check found (flexible requests over BrokerMaxWriteBytes, "
            "message sets over ProducerBatchMaxBytes, first request with 127+ large batches of a short-named topic) are repaired in /repo (e8757ce, "
            "c322dee, d9ff59f) and kept as regression cases; the violations that need the written version to differ from the sink's version are listed findings.",
    "technique": "Lean 4 proof (accounting invariants by induction over buffering and request building, exact length lemmas) with differential "
                 "correspondence and an executable reference-decoder Spec evaluated on the implementation's bytes",
}
