from lib.pipeline import Prop
PROP = Prop(
    "C21",
    models=[("pkg/kgo/broker.go", ["broker.handleReq", "brokerCxn.requestAPIVersions", "brokerCxn.init", "brokerCxn.sasl",
                                   "brokerVersions.maxVersion", "brokerVersions.minVersion", "broker.storeVersions", "broker.loadVersions"]),
            ("pkg/kversion/kversion.go", ["Versions.LookupMaxKeyVersion", "Versions.HasKey", "Versions.SetMaxKeyVersion"])],
    rule="one case = one client configuration (kgo.MaxVersions / kgo.MinVersions incl. nil, default, key missing) against one scripted "
         "ApiVersions table (kfake's own table, optionally capped by kfake.MaxVersions, with the focal key advertised as an arbitrary "
         "[min,max], removed, removed together with the Produce key, or no ApiVersions exchange at all) and one request: Broker.Request on "
         "the seed (straight into handleReq), cl.Request (sharders, incl. the pinned FindCoordinator / OffsetFetch shapes), a produced record, "
         "a polled fetch, or the connection-setup requests themselves (ApiVersions, SASLHandshake, SASLAuthenticate). Observed: the header "
         "version of every request frame that reaches the broker side, or the error class when nothing is written. Generated: a grid of every "
         "bound below / at / above a pivot, missing and -1 on selected kinds; every key of the codec with random placements; random placements "
         "on all kinds. A `seq` case = one client whose broker objects see the scripted ApiVersions table CHANGE between connections (rolling "
         "downgrade / upgrade: max lowered or raised, min raised, key removed / added / repeated, Produce key removed): requests straight "
         "into handleReq of the seed broker object or of node 0 (Metadata, ListOffsets, FindCoordinator, OffsetFetch, InitProducerID, "
         "DescribeConfigs, ListGroups, DescribeGroups, DescribeCluster, Heartbeat, OffsetCommit on the normal connection; Produce; Fetch; "
         "JoinGroup / SyncGroup on the group connection; CreateTopics / DeleteTopics on the slow one), produced records and a polling "
         "consumer, before and after the change, landing on new connections (every connection cut by the broker, the connection cut "
         "under the request, first use of another connection class) and on old ones. Observed in wire order per broker object (told "
         "apart by the dialled host): every delivered connection-setup ApiVersions table, every request frame with its header version and "
         "the table advertised on ITS connection, every version error that wrote nothing. The model replays that history (stored cell of "
         "the broker object) and must give the same version / error class for every frame; the Spec judges every frame against the most "
         "recent table delivered to its broker object. non-trivial = not (focal request written at the client's max with the key "
         "advertised); a seq case is non-trivial when a request follows a changed table on its broker object. distinct = distinct op lines.",
    trusted_base=["hand-written Lean model of the version clamp of broker.handleReq, of the table loading and first version of requestAPIVersions, of the "
                  "SASL handshake/authenticate versions and of the two pin schedules reached (findCoordinatorSharder, offsetFetchSharder), tied by "
                  "differential runs observed at the wire of a real kfake; of the per-broker-object table cell (storeVersions in every connection's "
                  "init, loadVersions in every clamp), tied by the seq cases",
                  "the scripted ApiVersions answers (cluster.ControlKey(18)) and the frame reader of harness/sim",
                  "per-frame bounds of non-focal frames are the harness's own configuration, printed with the frame",
                  "seq cases: the attribution of a connection to a broker object (n-th serialised dial = n-th accepted connection; seed dialled as "
                  "127.0.0.1, node 0 as localhost) and the wire order of events as appended under one mutex by the broker-side frame reader",
                  "Lean compiler/runtime for the driver"],
    assumptions=["versions are non-negative where the API guarantees it: req.MaxVersion(), the literal pins of client.go, values stored by SetMaxKeyVersion",
                 "a connection-setup request that is skipped (no SASLHandshake without an advertised key) is not a failed request",
                 "the broker's advertised range at a moment is that of the MOST RECENT ApiVersions response its broker object received on any of its "
                 "connections (the code keeps one table per broker object, not per connection; handleReqs serialises connects and clamps of one "
                 "object): a request on an older connection of the object is judged against the newer table, not against the one that "
                 "connection was told"],
    partial="FULL statement (every written request uses the highest version within all bounds, else an error and nothing written) is FALSE of the current code in "
            "three classes, each refuted in Lean by a decided witness and reported on the real client under a stable key: key-missing-without-produce-key "
            "(clamp_spec_full_false), init-apiversions-unclamped and sasl-version-is-broker-max (setup_full_false). Proved instead: clamp_ok_iff_partial / "
            "clamp_err_iff_partial / clamp_spec_partial under ProduceKnown, clamp_never_outside unconditionally, initApi_first_partial, "
            "saslHandshake_partial, saslAuth_partial. The pin schedule of the sharders is modelled and compared, not proved. Across connections: "
            "request_uses_latest_table (every request of every sequence of connects with arbitrary tables and requests is clamped against the table "
            "of the latest successful ApiVersions exchange of its broker object), written_within_latest_advertised, absent_key_fails_on_latest, "
            "never_nil_versions unconditionally; trace_spec_partial (the executable Spec on the whole history) under the same ProduceKnown "
            "restriction on every received table.",
)
MANIFEST = {
    "text": "Lean theorems for all integers: the version clamp of broker.handleReq returns ok v exactly when v is the highest version within the client's "
            "codec max, the internal pin, the broker's advertised [min,max], the user's MaxVersions and MinVersions, and an error (nothing written) exactly "
            "when no such version exists or the key is unknown to the broker's table or the user's MaxVersions — provided the table has the Produce key or "
            "the request's key (the code recognises a loaded table by the Produce key); a written version never leaves any bound the code consults; "
            "ApiVersions loading keeps per key the advertised range. For every sequence of connections (each answered with an arbitrary table) and "
            "requests of one broker object, by induction: every request is clamped against the table of the MOST RECENT successful ApiVersions "
            "exchange of the object on any of its connections, a written version lies within that table's range, a key absent from it fails and "
            "nothing is written, the clamp never meets a nil table, and the executable Spec holds on the whole wire history. The unconditional statement and the same statement for the connection-setup "
            "requests (ApiVersions, SASLHandshake, SASLAuthenticate) are refuted by decided witnesses; those classes are reported as findings. The model is "
            "tied to the code by running the real client against a real kfake with scripted ApiVersions answers — also answers that change between the "
            "connections of one client (reconnects after cuts, first use of the produce / fetch / group / slow connection) — and reading every "
            "request header at the wire.",
    "note": "Trusted: Lean kernel; the hand-written model (validated differentially, not verified); the harness's scripted broker and frame reader. "
            "The sharders' pin fallback is compared, not proved. Omitted setup requests are not judged.",
    "technique": "Lean 4 proof (interval characterisation of the clamp against a scan-style executable specification, decided counterexamples for the failing "
                 "classes) with differential correspondence observed at the wire of kfake",
}
