from lib.pipeline import Prop
PROP = Prop(
    "C21",
    models=[("pkg/kgo/broker.go", ["broker.handleReq", "brokerCxn.requestAPIVersions", "brokerCxn.init", "brokerCxn.sasl",
                                   "brokerVersions.maxVersion", "brokerVersions.minVersion"]),
            ("pkg/kversion/kversion.go", ["Versions.LookupMaxKeyVersion", "Versions.HasKey", "Versions.SetMaxKeyVersion"])],
    rule="one case = one client configuration (kgo.MaxVersions / kgo.MinVersions incl. nil, default, key missing) against one scripted "
         "ApiVersions table (kfake's own table, optionally capped by kfake.MaxVersions, with the focal key advertised as an arbitrary "
         "[min,max], removed, removed together with the Produce key, or no ApiVersions exchange at all) and one request: Broker.Request on "
         "the seed (straight into handleReq), cl.Request (sharders, incl. the pinned FindCoordinator / OffsetFetch shapes), a produced record, "
         "a polled fetch, or the connection-setup requests themselves (ApiVersions, SASLHandshake, SASLAuthenticate). Observed: the header "
         "version of every request frame that reaches the broker side, or the error class when nothing is written. Generated: a grid of every "
         "bound below / at / above a pivot, missing and -1 on selected kinds; every key of the codec with random placements; random placements "
         "on all kinds. non-trivial = not (focal request written at the client's max with the key advertised). distinct = distinct op lines.",
    trusted_base=["hand-written Lean model of the version clamp of broker.handleReq, of the table loading and first version of requestAPIVersions, of the "
                  "SASL handshake/authenticate versions and of the two pin schedules reached (findCoordinatorSharder, offsetFetchSharder), tied by "
                  "differential runs observed at the wire of a real kfake",
                  "the scripted ApiVersions answers (cluster.ControlKey(18)) and the frame reader of harness/sim",
                  "per-frame bounds of non-focal frames are the harness's own configuration, printed with the frame",
                  "Lean compiler/runtime for the driver"],
    assumptions=["versions are non-negative where the API guarantees it: req.MaxVersion(), the literal pins of client.go, values stored by SetMaxKeyVersion",
                 "a connection-setup request that is skipped (no SASLHandshake without an advertised key) is not a failed request"],
    partial="FULL statement (every written request uses the highest version within all bounds, else an error and nothing written) is FALSE of the current code in "
            "three classes, each refuted in Lean by a decided witness and reported on the real client under a stable key: key-missing-without-produce-key "
            "(clamp_spec_full_false), init-apiversions-unclamped and sasl-version-is-broker-max (setup_full_false). Proved instead: clamp_ok_iff_partial / "
            "clamp_err_iff_partial / clamp_spec_partial under ProduceKnown, clamp_never_outside unconditionally, initApi_first_partial, "
            "saslHandshake_partial, saslAuth_partial. The pin schedule of the sharders is modelled and compared, not proved.",
)
MANIFEST = {
    "text": "Lean theorems for all integers: the version clamp of broker.handleReq returns ok v exactly when v is the highest version within the client's "
            "codec max, the internal pin, the broker's advertised [min,max], the user's MaxVersions and MinVersions, and an error (nothing written) exactly "
            "when no such version exists or the key is unknown to the broker's table or the user's MaxVersions — provided the table has the Produce key or "
            "the request's key (the code recognises a loaded table by the Produce key); a written version never leaves any bound the code consults; "
            "ApiVersions loading keeps per key the advertised range. The unconditional statement and the same statement for the connection-setup "
            "requests (ApiVersions, SASLHandshake, SASLAuthenticate) are refuted by decided witnesses; those classes are reported as findings. The model is "
            "tied to the code by running the real client against a real kfake with scripted ApiVersions answers and reading every request header at the wire.",
    "note": "Trusted: Lean kernel; the hand-written model (validated differentially, not verified); the harness's scripted broker and frame reader. "
            "The sharders' pin fallback is compared, not proved. Omitted setup requests are not judged.",
    "technique": "Lean 4 proof (interval characterisation of the clamp against a scan-style executable specification, decided counterexamples for the failing "
                 "classes) with differential correspondence observed at the wire of kfake",
}
