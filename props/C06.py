"""C06 — fetch response parsing matches the Kafka log format (kgo.ProcessFetchPartition)."""
from lib.pipeline import Prop

SRC = "pkg/kgo/source.go"
PROP = Prop(
    "C06",
    models=[(SRC, ["ProcessFetchPartition", "buildAborter", "aborter.shouldAbortBatch", "aborter.trackAbortedPID",
                   "readRawRecordsInto", "ProcessFetchPartitionOpts.processRecordBatch",
                   "ProcessFetchPartitionOpts.processV1OuterMessage", "ProcessFetchPartitionOpts.processV1Message",
                   "ProcessFetchPartitionOpts.processV0OuterMessage", "ProcessFetchPartitionOpts.processV0Message",
                   "ProcessFetchPartitionOpts.maybeKeepRecord", "recordToRecord", "v0MessageToRecord", "v1MessageToRecord"]),
            ("pkg/kmsg/record.go", ["Record.readFrom"]),
            ("pkg/kmsg/generated.go", ["RecordBatch.readFrom", "MessageV0.readFrom", "MessageV1.readFrom"])],
    rule="one case = one partition response (raw bytes + aborted list + options) through kgo.ProcessFetchPartition with the real "
         "DefaultDecompressor. Streams: (1) well-formed logs built with kmsg encoders and this tree's compressors (v0/v1 messages and "
         "compressed wrappers with compaction gaps, v2 batches of several interleaved transactional producers with commit/abort markers, "
         "all five codecs, compaction gaps, empty compacted batches, a last batch cut short inside), requested offset anywhere incl. mid-batch, "
         "aborted list as a broker would list it, shuffled, and re-run in a second order; (2) the same kind of log cut at EVERY byte boundary; "
         "(3) departures from the format without ground truth (12 kinds: inconsistent aborted lists, reordered/duplicated frames, hostile batch "
         "headers and record streams incl. overflowing varints, multi-marker control batches, wrong magic, wrapper quirks, corrupted payloads with "
         "and without re-fixed CRCs, boundary values in header fields, random mutations, arbitrary bytes, offsets at the edge of int64). "
         "Model output (Lean, CRC-32 and the decompressor graph as parameters) must equal the implementation's output textually; verdict = "
         "Spec.C06.holds (reference decoder on the generator's ground truth: records equal in order and every field, next offset laws) for streams 1-2, "
         "Spec.C06.holdsAny + no panic/hang for stream 3. non-trivial = the walk sees >= 2 frames, or ends in a cut frame / unknown magic, or ends with an error (trivial: fewer than 18 bytes, or exactly one complete well-formed frame). distinct = distinct op lines.",
    trusted_base=["hand-written Lean model of ProcessFetchPartition and its callees (Model/C06.lean), tied to the source by the differential run "
                  "(exact textual equality of records, next offset and error class on every case)",
                  "modelled, not verified: CRC-32 IEEE/Castagnoli (bitwise implementation in the driver, parameters of the theorems), the "
                  "compression codecs (the graph of the real Decompressor on each input's payloads is passed as a table; parameter of the theorems)",
                  "kbin.Reader / kbin varints are transcribed as a total reader (subject of C16/C17), kmsg ReadFrom of RecordBatch/MessageV0/V1/Record transcribed by hand",
                  "Go harness generators and the ground-truth description they emit; Lean compiler/runtime for the driver"],
    assumptions=["the model uses unbounded integers: inputs with an offset of magnitude >= 2^62 (where Go's int64 arithmetic could wrap) are run "
                 "for 'no panic' only (verdict '-'), not compared",
                 "records_eq_reference_partial / next_never_passes_unreturned_partial are about the structured walk (Model.C06.process on decoded "
                 "frames): that the byte-level framing walk of an encoded log yields frames standing in the relation Rep to that log is not "
                 "proved (no encoder model); it is what the differential run and the Spec evaluation on ground truth test",
                 "their hypotheses: the frames encode a log with increasing offsets (WfLog: base offset >= 0, records inside [first,last], "
                 "strictly increasing inside a batch and across batches; v2 unused attribute bits zero; only the last batch cut short inside; "
                 "compressed wrappers carry only codec bits 0-1 and the timestamp-type bit, the inner messages of a LogAppendTime v1 wrapper are v1) and the aborted list is consistent with the log (AbortedConsistent: at an ABORT "
                 "marker at most one listed transaction of its producer is open, no listed transaction ended by a marker entirely below the fetch offset)"],
    partial="Proved for all inputs: order-independence of the aborted list, no panic on arbitrary bytes, truncated tail ignored, next offset monotone. "
            "Proved for every well-formed list of frames (v0/v1 messages, compressed v0/v1 wrappers with rebasing, v2 batches, last one possibly cut short, "
            "then a stopping frame), every fetch offset, isolation level and every aborted list consistent with the log: returned records = "
            "Spec.C06.refRecords (records_eq_reference_partial), every reference record of the log is returned or at/after the next offset "
            "(next_never_passes_unreturned_partial, incl. KAFKA-5443 and batches cut short), next offset within the whole batches (next_within_response), "
            "hence the driver's predicate Spec.C06.holds on the model's result (spec_holds_partial); for all inputs the next offset is past every returned record (returned_below_next). "
            "Not proved: the same for aborted lists the property does not speak about (duplicates, transactions ended below the fetch offset: the full "
            "statements are false there, kept in comments), the byte-level encoding relation (frames of an encoded log stand in Rep to it). "
            "Found here and repaired in /repo 581b089 (model follows, theorems cover it): v1 compressed wrapper stamped LogAppendTime (key v1-wrapper-logappendtime-timestamp, regression case in corpus/C06).",
)
MANIFEST = {
    "text": "Lean model of kgo.ProcessFetchPartition at two levels (byte-level framing walk with every slice expression an explicit panic outcome; "
            "structured walk over decoded batches/messages with the aborter, control records, KAFKA-5443 next-offset rule, wrapper offset rebasing). "
            "Theorems for all inputs: the result is invariant under permutation of the aborted-transaction list; arbitrary bytes never reach a panic "
            "outcome (any CRC function, any decompressor); a truncated trailing frame is a silent stop that changes neither records nor next offset; the "
            "next offset never goes below the requested one. Refinement theorems against the independent reference decoder Spec.C06 (induction over the walk "
            "with an invariant tying the sorted, popped aborter to the Spec's order-free 'open aborted transaction' definition): for every list of frames "
            "that encode a log with increasing offsets (v0/v1 messages, compressed v0/v1 wrappers with offset rebasing, v2 batches incl. compacted, empty, "
            "control, transactional, the last possibly cut short inside, then a truncated or failing frame), every fetch offset, isolation level and every "
            "aborted list consistent with that log, the returned records equal Spec.C06.refRecords in order and in every field, every record the reference "
            "decoder yields from the log (also beyond the response) is returned or lies at/after the next offset, and the next offset stays within the whole "
            "batches - i.e. the executable predicate Spec.C06.holds is a theorem about the model's result; for all inputs the next offset is past every returned record. The model is tied to the code by differential runs (exact output equality), and the same reference decoder is evaluated on the "
            "implementation's output against the generator's ground truth for mixed v0/v1/v2 logs, every codec, interleaved transactions, compaction gaps, "
            "empty batches, truncation at every byte and shuffled aborted lists.",
    "note": "Trusted: Lean kernel; the hand-written model (validated differentially, not extracted); CRC-32 and codecs are parameters (modelled, not verified); "
            "kbin reader/varints transcribed (C16/C17); the relation Rep between decoded frames and log batches (Proof/C06Ref.lean, written from the log format) and "
            "that the byte-level walk produces such frames for an encoded log (tested, not proved). The refinement theorems are named _partial because they assume an "
            "aborted list consistent with the log (each transaction once, none ended below the fetch offset); outside that the full statements are false in model and "
            "code and the property is silent. Offsets of magnitude >= 2^62 are only run for no-panic. Found and reported: readRawRecordsInto panicked on an overflowing "
            "record-length varint (fixed in /repo 049c23c; key varint-overflow-record-length); a v1 compressed wrapper stamped LogAppendTime was returned with the inner "
            "timestamps and CreateTime attributes instead of the wrapper's timestamp (fixed in /repo 581b089; key v1-wrapper-logappendtime-timestamp, regression case "
            "with ground truth in corpus/C06; the well-formed generator now emits such wrappers). A v0 inner message inside a v1 wrapper (not allowed by the log format: "
            "inner magic must equal the wrapper's) is accepted by the code and returned without timestamp; compared with the model only (malformed stream kind 6).",
    "technique": "Lean 4 proof (induction over the walk, explicit panic outcomes, refinement to a reference decoder with an aborter invariant) with differential correspondence and a reference-decoder oracle",
}
