from lib import pipeline as P
from lib.pipeline import Prop


def dump_tables():
    """Tie T: build harness/cmd/c24 against the tree under verification (lib.pipeline.REPO, i.e. VERIF_REPO) and let it
    *run* kerr / kmsg / kversion over every int16 value; the output is the text of lean/FranzVerif/Gen/C24.lean.
    A failure (does not build, a release constructor in the source that the dumper does not list, a nil release)
    is a translator failure, i.e. a broken obligation."""
    try:
        hbin = P.build_harness(PROP)
    except P.Broken as b:
        raise RuntimeError("%s\n%s" % (b.what, b.detail[-1500:]))
    rc, out, err = P.sh([hbin, "dump"], env=P.harness_env(0, "quick"), timeout=300)
    if rc != 0 or "end Gen.C24" not in out:
        raise RuntimeError("c24 dump failed rc=%d: %s" % (rc, err.strip()[-1500:]))
    return out


PROP = Prop(
    "C24",
    gen=[("FranzVerif/Gen/C24.lean", dump_tables)],
    models=[],
    rule="every op is a closed interval of int16 values answered by run-length encoded observations of the live code: "
         "err lo hi (ErrorForCode + TypedErrorForCode), key lo hi (RequestForKey + ResponseForKey + NameForKey with Key(), MaxVersion(), "
         "type names, ResponseKind/RequestKind), rel <release> lo hi (LookupMaxKeyVersion of a named release + the codec's maxima). "
         "Generated per table (3 + one per named release): one point op for every populated entry found by scanning all of int16 on the live code "
         "and its 2 neighbours on each side and the int16 boundaries; consecutive spans that together sweep the whole of int16; random "
         "spans (75% around the populated region); random single points. non-trivial = a span (lo < hi) or a point within 2 of a "
         "populated entry (known code / key with a type / key a release has) or of an int16 boundary; trivial = a lone point in the "
         "unpopulated bulk. distinct = distinct op lines.",
    trusted_base=["harness/cmd/c24 dump (table dumper: runs the public lookups of the linked tree over all of int16 and prints the "
                  "run-length encoding as Lean data; the same binary's `run` mode re-observes the live code for the differential lines, through kmsg.Key(k).Request()/Response()/Name() and HasKey + EachMaxKeyVersion instead of the functions the dumper calls)",
                  "the dumper's list of kversion release constructors, cross-checked on every run against a go/ast scan of the kversion "
                  "sources the binary was compiled from (mismatch = broken obligation)",
                  "Model.C24.refMaxCode = 133: Apache Kafka's highest error code at the tracked protocol level (external reference, transcribed)",
                  "Lean compiler/runtime for the driver"],
    assumptions=["'named release' = every exported kversion constructor `func X() *Versions` plus every string of kversion.VersionStrings() fed to FromString",
                 "request/response 'name' = Go type name minus the Request/Response suffix, compared with NameForKey",
                 "a key without a type may be named \"Unknown\" (what the code answers) or \"\" (what its doc comment says)"],
)
MANIFEST = {
    "text": "The three protocol tables are dumped from the tree on every run by executing the public lookups on every int16 value "
            "(kerr.ErrorForCode/TypedErrorForCode; kmsg.RequestForKey/ResponseForKey/NameForKey with Key(), MaxVersion(), type names; "
            "LookupMaxKeyVersion of all 34 kversion constructors and all 32 FromString names) as run-length interval tables. Lean theorems over "
            "those tables, for all code/key : Int16 and every named release: ErrorForCode and TypedErrorForCode agree, 0 maps to nil and only 0, "
            "every other code maps to an error carrying that code or - only outside Kafka's range -1..133 - to UNKNOWN_SERVER_ERROR(-1); "
            "a key has both a request and a response type or neither, both report the key, the same max version and the NameForKey name, and "
            "nothing exists above kmsg.MaxKey; every key of every named release exists in the codec with release max <= request and response "
            "MaxVersion(). The interval facts are kernel evaluations (decide +kernel); a proved cover lemma lifts them to the quantified statements. "
            "The harness re-observes the live code over all of int16 and the driver evaluates the same Specs on those answers.",
    "note": "Trusted: Lean kernel; the Go dumper (it is the tie: a dumper that misreports the code would go unnoticed except where the `run` observations, "
            "made through the alternative public entry points Key.Request/Response/Name and HasKey/EachMaxKeyVersion, disagree; kerr has only the one entry point); Kafka's error-code range -1..133 as external reference; release list "
            "completeness rests on the go/ast cross-check of exported `func X() *Versions`. Not covered: min versions, flexible-version tables, "
            "error descriptions, names matching Apache Kafka's spelling, unexported release tables (btip/ctip/ztip) except as reachable through "
            "constructors and FromString.",
    "technique": "Lean 4 proof over exhaustively regenerated tables (decide +kernel on interval entries + cover lemma to Int16 quantifiers) with a "
                 "differential line-protocol run against the live code",
}
