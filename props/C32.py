from lib.pipeline import Prop
EX = "{REPO}"
PROP = Prop(
    "C32",
    # Props.C32 reuses Props.C29 (window refinement), which is stated over the regenerated modulus
    gen=[("FranzVerif/Gen/C29.lean",
          ["cat", "intfunc", EX + "/pkg/kgo/sink.go", "incrementSequence", "Gen.C29", "--",
           "remconsts", EX + "/pkg/kfake/txns.go", "pidwindow.pushAndValidate", "Gen.C29K", "kfakeSeqMod", "next"])],
    harness="c32", harness_kind="test", tags="verif synctests", driver="C32", group_by_reset=True,
    models=[("pkg/kfake/data.go", ["Cluster.pushBatch", "partData.recalculateLSO", "Cluster.trimLeft", "partData.trimAbortedTxns", "partData.searchOffset"]),
            ("pkg/kfake/00_produce.go", ["Cluster.handleProduce"]),
            ("pkg/kfake/01_fetch.go", ["Cluster.handleFetch", "fetchSessions.getOrCreate", "fetchSession.updatePartition", "fetchSession.updateAndFilterResponse", "watchFetch.push", "watchFetch.addBytes"]),
            ("pkg/kfake/cluster.go", ["Cluster.MoveTopicPartition"]),
            ("pkg/kfake/21_delete_records.go", ["Cluster.handleDeleteRecords"]),
            ("pkg/kfake/txns.go", ["pids.doInitProducerID", "pids.doAddPartitions", "pids.doEnd", "pids.get", "pids.getOrCreateNonTx", "pids.updateTimer",
                                   "pids.create", "pids.bumpEpoch", "pidinfo.endTx", "pidinfo.maybeStart", "pidwindow.pushAndValidate"])],
    rule="history = group of raw protocol requests started by `reset <partitions> [<brokers>]` against a fresh kfake (one broker; two brokers in ~30% of the histories, with leader moves and the client turning from one broker to the other: NOT_LEADER answers, per-broker fetch sessions) inside a testing/synctest bubble (virtual time), issued by two raw "
         "clients (request versions pinned to Kafka 2.8, and the newest: produce v13 implicit partition addition, EndTxn v5 epoch bumps, fetch by topic id): Produce with hand-built "
         "batches of chosen byte size (no producer id / idempotent / transactional; correct next, retries of the last 1..7 batches, wrong sequences, stale and newer epochs, "
         "transactional bit on the wrong kind of producer), InitProducerID (first, repeated, KIP-360 with id+epoch), AddPartitionsToTxn (also without data), EndTxn commit/abort "
         "(also stale, repeated), DeleteRecords (in range, -1, out of range), sleeps that let transactions time out, Fetch (both isolation levels, offsets in/out of range and inside "
         "batches, MaxBytes / PartitionMaxBytes from 1 byte up, sessionless / new session / incremental with moved offsets, added and forgotten partitions, wrong epochs and ids, session kill; MinBytes > 0 with MaxWait: fetches that wait at the log end until the deadline or until a transaction timing out meanwhile puts enough marker / released bytes on a watched partition); "
         "after every request ListOffsets of every partition (log start, LSO, HWM). Scripted openings: interleaved aborted transactions then small-MaxBytes read_committed reads; in a quarter of the histories nested / overlapping transactions of two or three producers on one partition (outer starts first and ends last, every combination of commit/abort, a second inner transaction) followed by read_committed fetches of one batch (MaxBytes or PartitionMaxBytes 1) and of two or three batches from every offset of the log; "
         "a session over all partitions before any data. non-trivial = an operation executed while some partition's log is non-empty. distinct = distinct op lines.",
    trusted_base=["hand-written Lean model of kfake's partition log, coordinator and fetch sessions (Model.C32), tied by differential runs over raw protocol histories: every response field and the bounds after every step",
                  "Spec.C32 ledger (built from the implementation's own answers) and the transcription of Kafka's consumer-side aborted-transaction rule",
                  "harness/cmd/c32 (request building, response rendering, producer-id canonicalisation) and harness/sim bubbles (virtual time)",
                  "Lean compiler/runtime for the driver"],
    assumptions=["one topic, up to 3 partitions, one or two brokers (no followers; transaction requests always go to the right coordinator); segments never roll (default segment.bytes), no compaction / retention",
                 "producer epochs stay below the exhaustion threshold 32766, except for a transaction timing out at the threshold (modelled: ended on the old producer, which is then forgotten; corpus 002)",
                 "fewer sessions than fetch.session.cache.slots; session epochs below 2^31",
                 "requests of a history are sequential: a waiting fetch (MinBytes) can only be woken by transaction timeouts, not by a concurrent produce; CurrentLeaderEpoch = -1",
                 "transaction expiry times of different producers never coincide and never fall exactly on the end of a sleep (the generator keeps them apart)"],
    run_timeout={"quick": 900, "thorough": 3400},
)
MANIFEST = {
    "text": "Lean theorems over ALL operation histories of the model of kfake's partition log: offsets are contiguous from the high watermark; LSO <= HWM, LSO = HWM when no transaction "
            "is open and = the smallest first offset of an open transaction otherwise; a read_committed fetch, after Kafka's consumer-side aborted-transaction rule, yields exactly the "
            "committed data of the returned range (proved for every reachable state, offset and byte limit from an invariant tying the aborted index to the log's abort markers) and nothing at or beyond the LSO; a retried idempotent batch is answered with its original offset and "
            "appends nothing (reusing C29's window refinement); an incremental fetch session omits a partition only if its bounds are what the session recorded and the walk found nothing "
            "to return. The model is tied to the code by differential runs of raw protocol histories against the real kfake (all response fields and ListOffsets bounds after every step), "
            "and an independent ledger Spec is evaluated on the implementation's answers.",
    "note": "Trusted: Lean kernel; the hand-written model (validated differentially, not verified); the ledger Spec and the transcription of the consumer rule; the harness. Not covered: "
            "more than two brokers, follower fetching, coordinator moves, segment rolls, compaction and retention, fetches woken by a concurrent produce, producer-epoch exhaustion beyond the timeout case, persistence.",
    "technique": "Lean 4 proof (invariants by induction over all histories, refinement reuse from C29) with differential correspondence against kfake over raw protocol histories in synctest bubbles",
}
