from lib.pipeline import Prop
PROP = Prop(
    "C08", harness="sim", quick=["--mode", "grp"], thorough=["--mode", "grp"], harness_kind="test", tags="verif synctests", driver="C08",
    models=[("pkg/kgo/consumer_group.go", ["groupConsumer.manage", "groupConsumer.revoke", "groupConsumer.setupAssignedAndHeartbeat", "groupConsumer.handleSyncResp", "groupConsumer.leave"]),
            ("pkg/kgo/consumer_group_848.go", ["g848.handleResp"]), ("pkg/kfake/groups.go", ["group.computeTargetAssignment"])],
    rule="scenario = 2-4 member slots of one consumer group (range / round-robin / sticky / cooperative-sticky / KIP-848, with or without BlockRebalanceOnPoll, autocommit every 100-1000 ms) "
         "joining at different times, polling (PollFetches / PollRecords(1..8)) with processing pauses, leaving by Close and restarting 0-2 times, against a real kfake (1-2 brokers, 2-7 partitions) while a "
         "producer writes 100-400 records; then a long stable phase and graceful shutdown; history = every rebalance callback (entered/returned, partitions), polls and returned records, every commit request's "
         "per-partition result, the group's final committed offsets; non-trivial = at least two members joined, at least one non-empty revocation and one successful commit",
    trusted_base=["history monitor Model.Group", "callback/poll events are logged where the client calls them (one log mutex = linearisation)", "harness/sim (synctest bubble)", "Lean compiler/runtime for the driver"],
    assumptions=["members leave gracefully (Close)", "stability is judged 12 s (virtual) after the last membership change with session timeout 6 s and rebalance timeout 4 s"],
    run_timeout={"quick": 1200, "thorough": 3400},
)
MANIFEST = {
    "text": "Verified monitor: Lean theorems over ALL accepted group histories: every successfully committed offset of a member is at most what that member returned from polls that were followed "
            "by another poll (or what the group had committed before), and at the end every record below the group's final committed offset was returned to some member. Tie: history "
            "correspondence with real kgo group members x kfake (default autocommit and revoke handling) under joins, leaves, restarts and rebalances of eager, cooperative and KIP-848 groups.",
    "note": "Trusted: Lean kernel; monitor vocabulary; harness. Commit results are observed through AutoCommitCallback (request and response of every autocommit / commit-on-revoke), "
            "the final offsets through OffsetFetch.",
    "technique": "Lean 4 proof over a history monitor with history correspondence against kgo x kfake in synctest bubbles",
}
