from lib.pipeline import Prop
PROP = Prop(
    "C23", harness="sim", quick=["--mode", "shard"], thorough=["--mode", "shard"], harness_kind="test", tags="verif synctests", driver="C23",
    models=[("pkg/kgo/client.go", ["Client.Request", "Client.RequestSharded", "Client.shardedRequest", "Client.handleShardedReq", "firstErrMerger",
                                   "Client.allBrokersShardedReq", "unknownErrShards.err", "unknownErrShards.errs", "unknownErrShards.collect",
                                   "listOffsetsSharder.shard", "listOffsetsSharder.onResp", "listOffsetsSharder.merge",
                                   "offsetFetchSharder.shard", "offsetFetchSharder.merge", "findCoordinatorSharder.shard", "findCoordinatorSharder.merge",
                                   "describeGroupsSharder.shard", "describeGroupsSharder.onResp", "describeGroupsSharder.merge",
                                   "listGroupsSharder.shard", "listGroupsSharder.merge", "deleteRecordsSharder.shard", "deleteRecordsSharder.merge",
                                   "offsetForLeaderEpochSharder.shard", "offsetForLeaderEpochSharder.merge",
                                   "deleteGroupsSharder.shard", "deleteGroupsSharder.merge", "describeProducersSharder.shard", "describeProducersSharder.merge",
                                   "describeTransactionsSharder.shard", "describeTransactionsSharder.merge", "listTransactionsSharder.shard", "listTransactionsSharder.merge",
                                   "consumerGroupDescribeSharder.shard", "consumerGroupDescribeSharder.merge",
                                   "shareGroupDescribeSharder.shard", "shareGroupDescribeSharder.merge",
                                   "Client.loadCoordinators", "Client.doLoadCoordinators", "Client.maybeDeleteCachedMeta"])],
    rule="scenario = one splittable request (kinds in rotation: ListOffsets, DeleteRecords, OffsetForLeaderEpoch, DescribeProducers, DescribeGroups, DeleteGroups, "
         "ConsumerGroupDescribe, ShareGroupDescribe, OffsetFetch with several groups, DescribeTransactions, batched FindCoordinator, ListGroups, ListTransactions, DescribeShareGroupOffsets, "
         "DescribeConfigs, AlterConfigs, IncrementalAlterConfigs (broker-named and topic resources, unknown broker ids), DescribeLogDirs, AlterReplicaLogDirs (per-replica), WriteTxnMarkers) issued by a real kgo "
         "client through RequestSharded and then, on a fresh client, through Request, against a real kfake cluster of 1-5 brokers with generated leader / coordinator placement; 1-9 requested "
         "items with unknown topics / partitions or unmappable groups / transactional ids (0-35 %) and duplicates (0-40 %); fault = none | the first 1-2 requests of that API answered "
         "NOT_LEADER_FOR_PARTITION / NOT_COORDINATOR / COORDINATOR_LOAD_IN_PROGRESS / COORDINATOR_NOT_AVAILABLE for every item | leaders of requested partitions moved "
         "(MoveTopicPartition / ShufflePartitionLeaders) or coordinators rehashed while the first request is at the broker; recorded: requested items, layout versions, every request "
         "of that API as it reached a broker (kfake control hook: node, items, layout version), every returned shard (destination, request items, response items with codes, error), "
         "the merged response and error of Request. non-trivial = at least two shards, or a retried attempt, or an unmappable item, or a duplicated item. distinct = distinct op lines.",
    trusted_base=["hand-written model Model.C23 (bucket fold + issue recursion) tied by the predicted-grouping comparison on static layouts", "Spec Model.C23.spec* evaluated on the real shards",
                  "harness/cmd/sim/shard_test.go (kmsg item extraction, kfake control hook as wire view, layout read through LeaderFor / CoordinatorFor)", "kfake as the broker (answers every requested item)",
                  "Lean compiler/runtime for the driver"],
    assumptions=["a broker answers every item of the request it received (checked on kfake per shard: response items = request items as sets)",
                 "merged-response clause is stated under AllMappable; with unmappable items Request returns the merge of the successful shards together with the first shard error (executed and counted in the distribution)",
                 "duplicated requested items are kept as often as requested, except FindCoordinator whose sharder collapses duplicated keys",
                 "DescribeLogDirs (with topics) and AlterReplicaLogDirs are per-replica fan-outs: the literal one-shard clause fails for them with 2+ replicas (known finding); what is checked is "
                 "'item in exactly the shards of its replica brokers'; the model's predicted grouping is not compared for them",
                 "not exercised against kfake: AddPartitionsToTxn (kfake answers only one transaction of a v4+ batch), DescribeLogDirs without topics (all-broker form), "
                 "the pre-batch (errBrokerTooOld) split paths of OffsetFetch / FindCoordinator / AddPartitionsToTxn, connection-level failures, retry-budget exhaustion, wholesale shard() failures"],
    run_timeout={"quick": 900, "thorough": 3400},
)
MANIFEST = {
    "text": "Lean theorems over the generic split / issue / re-split recursion of handleShardedReq (any placement function, any layout, any item list with duplicates, any retry budget, any sequence of "
            "retriable failures and layout changes): the returned shards' items are a permutation of the requested items; no item is in two shards; every shard's items belong to its destination under a "
            "layout the client believed in; error buckets hold exactly the unmappable items; merge preserves the multiset and, when all items are mappable, equals the request with no error. Tie: "
            "scenario correspondence on 20 request kinds (real kgo x real kfake, 1-5 brokers, moves and injected retriable errors mid-request): model-predicted grouping compared with the real shards on "
            "static layouts, and the executable Spec (every requested item in exactly one shard as a multiset, shards consistent with the layout when the final attempt reached the broker, merged = union "
            "of shard responses = request) evaluated on the real shards and merged responses.",
    "note": "Trusted: Lean kernel; hand-written model (validated by the correspondence, not generated); harness and kfake. 8 of the 21 sharders are proved only through the generic model "
            "(not driven against kfake). The merged clause carries the AllMappable hypothesis; the excluded case is executed and reported.",
    "technique": "Lean 4 proof (induction over the re-split recursion, permutation / pairwise-disjointness invariants of the bucket fold) with scenario correspondence against kgo x kfake in synctest bubbles",
}
