from lib.pipeline import Prop
PROP = Prop(
    "C05", harness="sim", quick=["--mode", "cons"], thorough=["--mode", "cons"], harness_kind="test", tags="verif synctests", driver="C05",
    models=[("pkg/kgo/source.go", ["cursor.use", "source.takeBuffered", "source.takeNBuffered", "source.discardBuffered", "source.handleReqResp"]),
            ("pkg/kgo/consumer.go", ["Client.PollRecords", "Client.PauseFetchPartitions", "Client.ResumeFetchPartitions"])],
    rule="scenario = direct consumer of this tree (ConsumeTopics or ConsumePartitions at a start offset, read_uncommitted or read_committed, PollFetches or PollRecords(1..17), "
         "small FetchMaxBytes/PartitionBytes, pause/resume between polls) x real kfake (1-3 brokers, leader moves) while a plain producer and 0-2 transactional producers (commit/abort, "
         "transactions left open for a while) write to 1-3 shared partitions; faults on fetch requests: connection killed before/after kfake handled it, FETCH_SESSION_ID_NOT_FOUND, "
         "INVALID_FETCH_SESSION_EPOCH, NOT_LEADER / UNKNOWN_SERVER_ERROR partition errors; history = acknowledged produces, transaction decisions, every polled record, fetch hooks; "
         "non-trivial = at least 10 records returned and (read_uncommitted or at least one transaction)",
    trusted_base=["history monitor Model.Consumer", "ground truth = the producers' own acknowledgements (partition, offset, transaction) and EndTransaction results, produced without faults on the produce path",
                  "harness/sim (synctest bubble, fault layer)", "Lean compiler/runtime for the driver"],
    assumptions=["completeness is judged after producers finished, faults stopped, everything resumed and four consecutive empty polls of 400 ms (virtual)"],
    run_timeout={"quick": 900, "thorough": 3400},
)
MANIFEST = {
    "text": "Verified monitor: Lean theorems over ALL accepted consumer histories under read_committed: no returned record belongs to an aborted transaction, none was returned before its "
            "transaction's commit was decided (open transaction), no control record is returned unless KeepControlRecords, and at quiescence every committed or non-transactional record at or "
            "after the start position was returned. Tie: history correspondence with real kgo consumer x kfake while several transactional and plain producers interleave on shared partitions.",
    "note": "Trusted: Lean kernel; monitor vocabulary; harness; ground truth from producer acknowledgements and EndTransaction results. kfake's fetch path (LSO, aborted-transaction index) is part "
            "of what is exercised: a violation can come from the broker side. Transaction timeouts are not generated yet.",
    "technique": "Lean 4 proof over a history monitor with history correspondence against kgo x kfake in synctest bubbles",
}
