from lib.pipeline import Prop
PROP = Prop(
    "C35",
    models=[("pkg/kadm/groups.go", ["CalculateGroupLagWithStartOffsets", "CalculateGroupLag", "GroupLag.Total", "GroupLag.TotalByTopic"])],
    rule="each case is one call of CalculateGroupLag (no start offsets) or CalculateGroupLagWithStartOffsets on a generated described group "
         "(0-4 members, consumer / non-consumer assignments and join metadata, duplicates inside one assignment and across members), commit responses "
         "(missing topics/partitions, At=-1, commit beyond end, errors) and listed start/end offsets (nil maps, missing topics/partitions, errors, "
         "start beyond end, start without end, partitions only known from the listing, offsets scaled by 2^33 in 10% of cases), preceded by the exhaustive "
         "enumeration of one partition's situation {assigned?} x {commit none,-1,3,20,errored} x {start none,2,30,errored} x {end none,10,errored(10),errored(-1)} "
         "x {topic joined?} (thorough: all pairs of situations for two partitions). non-trivial = the real code reported at least one partition that is "
         "assigned or committed (the partitions the property speaks of). distinct = distinct op lines.",
    trusted_base=["hand-written model of CalculateGroupLagWithStartOffsets / Total / TotalByTopic (Model/C35.lean), tied to the code by the differential run "
                  "(every GroupMemberLag field incl. which member the pointer refers to and which error value, TotalByTopic, Total)",
                  "harness/cmd/c35 (generator, canonicalisation: rows sorted by topic/partition, error values mapped to small numbers by identity)",
                  "verif-tagged constructors pkg/kadm/verif_export_c35.go (wrap a value in GroupMemberAssignment/GroupMemberMetadata as DescribeGroups does)",
                  "Lean compiler/runtime for the driver"],
    assumptions=["offsets are modelled as unbounded integers; the generator keeps |offset| < 2^41 so no int64 operation of the code overflows",
                 "for the every-reported-row reading of the lag sentences: end offsets listed without error are non-negative (the third pass does not floor a bare end offset; "
                 "the generator also runs that excluded point, model and code agree there, it is counted as excluded.negative-error-free-end-offset)",
                 "'committed by the group' = the commit responses have an entry for the partition; 'nothing is committed' = no entry or a negative offset (OffsetFetch answers -1)"],
    partial="S1-S4 are proved for every input for the partitions the property speaks of (assigned or committed). Read for every reported GroupMemberLag (as the type's doc comment promises) "
            "the -1/error sentence is false in the third pass: lag_law_every_row_partial excludes exactly the class thirdPassErrStart (not assigned, not committed, end offset listed with "
            "an error, start offset listed without); lag_law_every_row_false is the decided witness; the driver reports that class as 0:lag-nonneg-with-err-third-pass.",
)
MANIFEST = {
    "text": "Lean theorems for every described group, commit set and listed start/end offsets (any sizes, duplicates, missing entries, errors): the model of "
            "CalculateGroupLagWithStartOffsets reports every assigned-or-committed partition exactly once, with lag = max(0, end - commit | end - start | end) and nil error, or -1 and a non-nil error "
            "exactly when the end offset is missing/errored or the commit errored; Total/TotalByTopic are the sums of the non-negative lags. The model is tied to the code by differential runs over "
            "every field of every reported GroupMemberLag. For rows of partitions known only from the listing the -1/error law is proved with one excluded input class, which is a recorded finding.",
    "note": "Trusted: Lean kernel; the hand-written model (validated differentially, not verified); harness canonicalisation; offsets within +-2^41 (no int64 overflow); error-free listed offsets >= 0 for "
            "the every-row reading. Known finding: third pass reports lag >= 0 with Err set when the end offset is errored and a start offset is listed (key lag-nonneg-with-err-third-pass).",
    "technique": "Lean 4 proof (invariants over the model's map writes, induction over all three passes) with differential correspondence against pkg/kadm",
}
