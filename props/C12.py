from lib.pipeline import Prop
PROP = Prop(
    "C12", harness="sim", quick=["--mode", "ackr,share"], thorough=["--mode", "ackr,share"], harness_kind="test", tags="verif synctests", driver="C12",
    run_timeout={"quick": 1200, "thorough": 3400},
    models=[("pkg/kgo/consumer_share.go", ["buildAckRanges", "coalesceAppendRange", "filterStaleEntries", "shareAckState.tryAck",
                                           "source.shareAck", "source.createShareReq", "source.closeShareSession", "shareConsumer.leave",
                                           "shareConsumer.finalizePreviousPoll", "Client.FlushAcks", "shareAckState.appendAck"]),
            ("pkg/kfake/78_share_fetch.go", ["Cluster.handleShareFetch"]),
            ("pkg/kfake/share_groups.go", ["shareGroup.processShareAcks", "validateOneAckBatch", "sharePartition.validateAndProcessAcks"])],
    rule="share (protocol half): scenario = 1-3 share-group members of this tree (PollFetches or PollRecords(2|5), per record Ack accept 55% / release 10% / "
         "reject 7% / renew 10% (half of them then accept) / nothing 18% (auto-accept at the next poll), processing longer than the acquisition lock with "
         "probability 0/15/40 %, FlushAcks after a poll with probability 0/30/100 %, members joining late and leaving early, Close) x real kfake (1-2 brokers, "
         "1-2 partitions, lock 1 or 2 s, leader moves) while a plain producer and 0-2 transactional producers (commit/abort markers) write; half of the "
         "scenarios inject faults (20 or 40 %): ShareFetch requests that carry nothing but piggybacked acks and ShareAcknowledge requests are answered, through a "
         "kfake Control hook and instead of being handled, with a retriable acknowledge error (REQUEST_TIMED_OUT / KAFKA_STORAGE_ERROR) for every acked partition "
         "(one broker; the session epoch the broker then lags by is compensated per member), and 2-4 % of all ShareFetch/ShareAcknowledge requests lose their "
         "connection before or after the broker handled them; faults stop when the members wind down; history = API events "
         "(records returned with delivery count, Ack calls, implied auto-accepts, callbacks with error, FlushAcks, Close) and wire events (every acknowledgement "
         "batch, every per-partition acknowledge result, every acquired range, virtual timestamps); non-trivial = at least 10 records returned and 3 wire batches. "
         "ackr build: one case = the pending user acknowledgements (offset, status, source, epoch; the same state appended twice for "
         "renew-then-terminal) and gap ranges of one partition; structured cases cut an offset line into acquired blocks that are either "
         "delivered records acked with a mix of accept/release/reject/renew/undecided in call order, shuffled or reversed, or holes (gap 0 / "
         "release 2), over one or several fetches (epochs, sources), a quarter of them with gap ranges queued twice / extended / sub-ranges, up to 30 blocks (> 12 elements leaves Go's stable insertion sort); 12 % "
         "malformed (overlapping/inverted gaps, gaps over entries, negative offsets, two states at one offset, odd statuses: compared with the "
         "model, not judged); thorough adds every input with <= 2 entries over offsets 0..3 x statuses {0,1,2,4} (and 3 entries x {1,2}) and "
         "<= 2 gaps over the intervals of 0..3 x types {0,2}. non-trivial = at least two decided entries/gap ranges. "
         "coal: slices of 0..3 ranges plus a range that is mergeable except for at most one attribute; non-trivial = non-empty slice. "
         "stale: 1..3 drains of entries/gaps mostly deliverable, some from another source or a later epoch; non-trivial = non-empty. "
         "try: every sequence of <= 2 (thorough 3) calls over {1..4} x strict plus renew reset from every initial status, and random longer ones; "
         "race: 2..16 real goroutines on one state released together; non-trivial = at least two calls. distinct = distinct op lines.",
    trusted_base=["history monitor Model.Share (its ledgers: unsent/sent/answered decisions, confirmations, open records, pending callbacks) and the event vocabulary",
                  "harness/sim (synctest bubble: virtual time stands still while any goroutine runs, so an event stamped strictly later was caused later) and the "
                  "wire decoding of ShareFetch/ShareAcknowledge with kmsg; members are told apart by their client id",
                  "hand-written Lean model of buildAckRanges / coalesceAppendRange / filterStaleEntries / tryAck (pkg/kgo/consumer_share.go), tied by "
                  "differential runs through pkg/kgo/verif_export_c12.go (real functions over states/sources/slabs built from plain values)",
                  "tryAck interleavings: the model's atomic actions are the Load/CompareAndSwap operations of the code; the real-goroutine runs are "
                  "judged by the Spec only (their schedule is the Go runtime's)",
                  "Go's slices.SortFunc is modelled as a stable sort; outputs are not compared where > 12 elements carry equal keys with different values",
                  "what kfake / Kafka do with a descending batch list is read from pkg/kfake/share_groups.go (validateOneAckBatch) and remembered from "
                  "KafkaApis.validateAcknowledgementBatches; not part of any theorem",
                  "Lean compiler/runtime for the driver"],
    assumptions=["offsets are Kafka offsets: 0 <= offset < 2^63-1 (an entry at offset -1 is swallowed by the lastOffset = -1 sentinel; compared, not judged)",
                 "gap ranges are well-formed, of type gap (0) or release (2), may repeat or overlap (a requeued gap and the gap of a re-acquisition; merged since "
                 "4fd6241) provided overlapping ones have the same type (the merged range keeps the type of its first member), and contain no decided user entry "
                 "(the code does not look at entry/gap overlap at all; what processSharePartition / releaseUndeliverable enqueue never overlaps a record)",
                 "statuses passed to tryAck are 1..4 (Record.Ack / MarkAcks reject anything else)",
                 "reachability of the failing class in the real flow was shown outside the check (harness/cmd/c12/e2eprobe: transactional topic, poll all, accept all -> "
                 "ShareFetch piggybacks [0,2][4,5][3,3][6,6]); that probe also shows kfake losing the piggybacked ack error when the ShareFetch long-polls",
                 "protocol half: a decision counts as confirmed when the request that carried it was answered without error for the partition and the next callback for the "
                 "partition reported no error; the same offset can carry decisions of several deliveries of one member, of which a request carries one (observed: "
                 "buildAckRanges dedupes by offset); after an error callback the monitor no longer demands that the partition's unsent decisions reach the wire; "
                 "an acknowledgement answered with a retriable error is not resolved: its decision is unsent again, must be carried by a later request (or be "
                 "dropped with an error callback) and keeps waiting for its callback, so FlushAcks must keep waiting for it; a request whose response was lost with "
                 "its connection leaves the client ignorant of the outcome: its decisions count as unsent again, so the client's retry is not a second acknowledgement",
                 "retriable acknowledge errors are injected only in one-broker scenarios and only into requests that add or forget no partition",
                 "a share scenario that never becomes quiescent because kgo's loopShareFetch spins while an ack timer is armed and nothing can be fetched "
                 "(goroutines created at a high rate under a loopShareFetch frame while no event is logged; <= 1 s in real time, endless under virtual time) is "
                 "inconclusive: verdict -, counted as scen.share.inconclusive-ack-timer-spin (about 0.5 % of scenarios); any other hang is C12.scenario-hang"],
    partial="Pure half (buildAckRanges): the range clause is proved at full strength (build_spec) since repair 5958f14; "
            "before it the ordering conjunct was false (finding ackranges-gaps-after-entries, regression kept in corpus/C12 and as an example). "
            "Protocol half: theorems state what every accepted history satisfies at each event in terms of the monitor's ledgers (stateAt); the ledgers are the "
            "specification of 'unsent decision', 'confirmed', 'open record', they are not derived from a model of the client.",
)
MANIFEST = {
    "text": "Pure half, Lean theorems for all inputs: the per-record ack state machine of tryAck (atomic actions = the code's Load/CompareAndSwap, any number of "
            "callers, any interleaving, renew resets) sets a final outcome at most once and keeps it; buildAckRanges/coalesceAppendRange emit, for every "
            "well-formed input, an ascending non-overlapping batch list that acknowledges every pending offset exactly once with its ack type (gaps as gaps) and "
            "flags renews exactly; filterStaleEntries keeps exactly the entries of this source and session; tied to the code by differential runs through a verif "
            "export (exhaustive small scopes in the thorough tier). Protocol half, verified monitor: Lean theorems over ALL accepted histories of share-group "
            "members x broker: the acknowledgement batches of a request are ascending and non-overlapping per partition on the wire; every accept/reject batch "
            "is backed by an application decision that no earlier unfailed request carries (one final ack per delivery) and has its type; no offset is acquired "
            "again after its accept/reject was confirmed without error; an accept/reject is only answered with success to the member that holds the record; "
            "Close releases undecided records; FlushAcks returns after the callbacks of all earlier acknowledgements; every decision reaches the wire by "
            "quiescence. Tie: history correspondence with real kgo share consumers x real kfake in synctest bubbles (transaction markers, slow processing past "
            "the lock, renew, churn, leader moves, injected retriable acknowledge errors on piggybacked and standalone acknowledgements, connection cuts).",
    "note": "Trusted: Lean kernel; the hand-written pure model (validated differentially, not verified); the monitor's ledgers and event vocabulary; harness and wire "
            "decoding; Go's sort modelled as stable; Kafka offsets below 2^63-1; gap ranges disjoint from each other and from decided entries; tryAck statuses 1..4. "
            "Theorems quantify over all histories; the correspondence samples schedules. Real-goroutine tryAck runs are judged by the Spec only.",
    "technique": "Lean 4 proof (transition-system invariant for the CAS machine; induction over the coalescing fold; history monitor with invariants) with differential "
                 "and history correspondence against kgo x kfake",
}
