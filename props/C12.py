from lib.pipeline import Prop
PROP = Prop(
    "C12",
    models=[("pkg/kgo/consumer_share.go", ["buildAckRanges", "coalesceAppendRange", "filterStaleEntries", "shareAckState.tryAck"])],
    rule="build: one case = the pending user acknowledgements (offset, status, source, epoch; the same state appended twice for "
         "renew-then-terminal) and gap ranges of one partition; structured cases cut an offset line into acquired blocks that are either "
         "delivered records acked with a mix of accept/release/reject/renew/undecided in call order, shuffled or reversed, or holes (gap 0 / "
         "release 2), over one or several fetches (epochs, sources), up to 30 blocks (> 12 elements leaves Go's stable insertion sort); 12 % "
         "malformed (overlapping/inverted gaps, gaps over entries, negative offsets, two states at one offset, odd statuses: compared with the "
         "model, not judged); thorough adds every input with <= 2 entries over offsets 0..3 x statuses {0,1,2,4} (and 3 entries x {1,2}) and "
         "<= 2 gaps over the intervals of 0..3 x types {0,2}. non-trivial = at least two decided entries/gap ranges. "
         "coal: slices of 0..3 ranges plus a range that is mergeable except for at most one attribute; non-trivial = non-empty slice. "
         "stale: 1..3 drains of entries/gaps mostly deliverable, some from another source or a later epoch; non-trivial = non-empty. "
         "try: every sequence of <= 2 (thorough 3) calls over {1..4} x strict plus renew reset from every initial status, and random longer ones; "
         "race: 2..16 real goroutines on one state released together; non-trivial = at least two calls. distinct = distinct op lines.",
    trusted_base=["hand-written Lean model of buildAckRanges / coalesceAppendRange / filterStaleEntries / tryAck (pkg/kgo/consumer_share.go), tied by "
                  "differential runs through pkg/kgo/verif_export_c12.go (real functions over states/sources/slabs built from plain values)",
                  "tryAck interleavings: the model's atomic actions are the Load/CompareAndSwap operations of the code; the real-goroutine runs are "
                  "judged by the Spec only (their schedule is the Go runtime's)",
                  "Go's slices.SortFunc is modelled as a stable sort; outputs are not compared where > 12 elements carry equal keys with different values",
                  "what kfake / Kafka do with a descending batch list is read from pkg/kfake/share_groups.go (validateOneAckBatch) and remembered from "
                  "KafkaApis.validateAcknowledgementBatches; not part of any theorem",
                  "Lean compiler/runtime for the driver"],
    assumptions=["offsets are Kafka offsets: 0 <= offset < 2^63-1 (an entry at offset -1 is swallowed by the lastOffset = -1 sentinel; compared, not judged)",
                 "gap ranges are well-formed, pairwise disjoint, of type gap (0) or release (2), and contain no decided user entry (what processSharePartition / "
                 "releaseUndeliverable enqueue)",
                 "statuses passed to tryAck are 1..4 (Record.Ack / MarkAcks reject anything else)",
                 "reachability of the failing class in the real flow was shown outside the check (harness/cmd/c12/e2eprobe: transactional topic, poll all, accept all -> "
                 "ShareFetch piggybacks [0,2][4,5][3,3][6,6]); that probe also shows kfake losing the piggybacked ack error when the ShareFetch long-polls",
                 "PROTOCOL HALF NOT COVERED: at-most-once delivery of a final ack to the broker, no redelivery after a confirmed accept/reject, auto-accept at the "
                 "next poll, release on close and the FlushAcks/callback ordering are not checked by this plug-in"],
    partial="Only the pure half of C12 is covered by these ops. The range clause is proved at full strength (build_spec) since repair 5958f14; "
            "before it the ordering conjunct was false (finding ackranges-gaps-after-entries, regression kept in corpus/C12 and as an example).",
)
MANIFEST = {
    "text": "PURE HALF ONLY. Lean theorems, all inputs: the per-record ack state machine of tryAck (atomic actions = the code's Load/CompareAndSwap, any number "
            "of callers, any interleaving, renew resets) sets a final outcome at most once, keeps it, and ends terminal exactly when one call won; "
            "buildAckRanges/coalesceAppendRange emit, for every well-formed input, an ascending non-overlapping batch list that acknowledges every pending offset "
            "exactly once with its ack type (gaps as gaps) and flags renews exactly when a renew batch is present (model re-transcribed after repair 5958f14; "
            "the pre-repair defect 'gap ranges after entry ranges' keeps the stable key ackranges-gaps-after-entries and a regression case). filterStaleEntries keeps exactly the entries of this source and "
            "session. The model is tied to the code by differential runs through a verif export, exhaustive over small scopes in the thorough tier. "
            "The protocol half of C12 (redelivery, auto-accept, release on close, FlushAcks ordering) is not covered.",
    "note": "Trusted: Lean kernel; the hand-written model (validated differentially, not verified); Go's sort modelled as stable; Kafka offsets below 2^63-1; "
            "gap ranges disjoint from each other and from decided entries; tryAck statuses 1..4. Real-goroutine tryAck runs are judged by the Spec only.",
    "technique": "Lean 4 proof (transition-system invariant for the CAS machine; induction over the coalescing fold; interleaving lemma for the merged gap/entry list) "
                 "with differential correspondence against the real functions",
}
