from lib.pipeline import Prop
PROP = Prop(
    "C33",
    models=[("pkg/kfake/persist.go", ["writeEntry", "readEntries", "decodeIndexEntry", "decodeBatchRaw", "Cluster.loadSegmentBatches",
                                      "Cluster.loadPartition", "snapshotMatchesSegments", "Cluster.loadPartitionFromSnapshot",
                                      "Cluster.loadPartitionFullReplay", "Cluster.persistBatchToSegment", "writeJSONFile",
                                      "replayGroupsLog", "Cluster.loadFromDisk", "Cluster.loadGroupsLog", "Cluster.loadPIDsLog", "truncateLogFile", "Cluster.loadSessionState"])],
    group_by_reset=True,
    run_timeout={"quick": 900, "thorough": 3000},
    rule="case = one restart of a real kfake (DataDir+SyncWrites) on an image of its crash-simulating file system. (A) generation 1: "
         "EVERY prefix k of the recorded fs operation sequence of a generated workload (raw produce plain/idempotent/transactional, "
         "EndTxn, OffsetCommit, CreateTopics, CreatePartitions with and without an explicit replica assignment, InitProducerID) x tail choices K/L/K.i.n/L.i.n (thorough: every cut of every unsynced tail "
         "of the small workloads), half of the workloads with log.segment.bytes=150 so that segments roll. (B) lineages of 2..4 "
         "generations in every order of clean Close / crash-with-tail-loss (patterns with a crash after a Close first), 35% with rolls: "
         "reset, then per generation a workload (every generation appends to t0-0), sampled crash points of that generation (peek: end "
         "of the trace with all kept / all unsynced lost, random prefixes and cuts) and its stop (close | crash k tail), and after the "
         "last restart a produce to every partition plus a live read back (probe). Workload lines carry the recorded trace and are "
         "checked for the acknowledgement discipline and for the start-up truncations the model predicts. non-trivial = k > 0 or any "
         "later generation, close/probe lines, workload traces with an acknowledged request. distinct = distinct op lines (they carry "
         "workload seeds and lineage ids).",
    trusted_base=["hand-written model of persist.go (framing, segment/index replay, partition recovery, groups.log replay, start-up) tied by "
                  "differential runs: the model's crash image and recovery must predict the recovered topics, logs (both isolation levels), "
                  "bounds, aborted-transaction lists and committed offsets of the real kfake exactly",
                  "harness: crash-simulating fs (create/truncate/rename/remove atomic+durable, unsynced tails lost by prefix), JSON decoding of "
                  "state files (annotations), raw protocol client",
                  "CRC-32C is a parameter of the theorems (executable transcription in the driver)",
                  "Lean compiler/runtime for the driver"],
    assumptions=["crash model of the property: per file synced bytes + any prefix of the unsynced tail; directory operations atomic and durable",
                 "entries: version < 2^16, payload < 2^32-2 bytes; crc values fit 32 bits",
                 "JSON encoding/decoding and OS semantics beyond the crash model are not modelled",
                 "single broker, SyncWrites on, requests issued one at a time (the acknowledged set at a crash point is then well defined)"],
    partial="RecordBatch framing of segment files (length at byte 8 + CRC) and the 15-byte index entries are modelled and checked "
            "differentially but their prefix-safety is not proved; producer/transaction listings (DescribeProducers, ListTransactions) are "
            "compared only across clean Close + restart; JSON and OS semantics beyond the crash model not modelled. One full statement is false of the code (negation proved on "
            "fullReplayAborted): the implicit abort of transactions open at a crash is not stable across recoveries (known finding "
            "crash-aborted-txn-has-no-marker); crash_abort_durable_partial is the part that holds. The start-up truncations (segment, index, "
            "groups.log, pids.log) predicted by the model are compared with the recorded ones on every second-generation workload.",
)
MANIFEST = {
    "text": "Lean theorems, for all entry lists / crash points / tail losses: readEntries(frames es ++ rest) = es ++ readEntries(rest); a torn "
            "tail (any proper prefix of a frame) is invisible without any CRC assumption; after any prefix of the write/sync append protocol "
            "and any loss of unsynced bytes replay returns a prefix of the issued entries containing every synced (acknowledgeable) one and no "
            "partial entry; clean close recovers all; temp+sync+rename leaves the old or exactly the new file; contiguity of recovered "
            "prefixes; over ANY multi-generation history (crash inside an append keeping none/both/only the segment record/only the index "
            "record, restart, more appends, ...) every acknowledged batch replays with its own index metadata and every replayed batch has "
            "an index entry; over ANY number of crash/restart generations of a state log (start-up cuts the torn tail) replay returns per "
            "generation a prefix containing every synced entry, in order; segment replay at byte level drops a torn batch and every batch "
            "without a complete index entry. Over every lineage of acknowledged appends (any segment layout, rolls), crashes, restarts and "
            "clean Closes the partition start-up recovers the end of all complete durable batches whether it takes the snapshot path or "
            "the full replay: a snapshot is used only when its recorded sizes equal the current file sizes and then it describes exactly "
            "the current log (snapshot_all_lineages, snapshot_used_only_if_current; refuted for a not-shorter comparison). One statement is "
            "refuted by a decided witness: the implicit abort of transactions open at a crash is not stable across recoveries (known finding). The model (crash image + recovery) is "
            "tied to the real kfake by restarting it on every crash prefix x sampled tail losses, multi-generation, comparing the protocol-"
            "visible state exactly and evaluating the property's Spec (acked => present, contiguous, no foreign/partial batch, read_committed "
            "consistent with transaction outcomes, committed offsets, topics, clean close identical) on the real outputs.",
    "note": "Trusted: Lean kernel; hand-written model validated differentially, not verified; the harness' crash-simulating file system and "
            "its JSON decoding; CRC-32C, JSON, OS semantics beyond the stated crash model not modelled. Found by this check and fixed in /repo: "
            "index-segment-skew-after-torn-append (fc48882), state-log-torn-tail-kept (a250036); both are regression cases in corpus/C33 and "
            "plain violations again if they reappear. Still open: crash-aborted-txn-has-no-marker, snapshot-lso-stuck-after-crash (see "
            "known_findings.txt).",
    "technique": "Lean 4 proof (induction over entry lists and operation prefixes, decided counterexample histories) with differential "
                 "crash-point enumeration against the real kfake on an injected crash-simulating file system",
}
