from lib.pipeline import Prop

PF = "pkg/kgo/partitioner.go"
PROP = Prop(
    "C28",
    models=[(PF, ["murmur2", "KafkaHasher", "SaramaHasher", "SaramaCompatHasher",
                  "roundRobinTopicPartitioner.Partition",
                  "stickyTopicPartitioner.Partition", "stickyTopicPartitioner.OnNewBatch",
                  "stickyKeyTopicPartitioner.Partition",
                  "leastBackupInput.Next", "leastBackupTopicPartitioner.PartitionByBackup", "leastBackupTopicPartitioner.OnNewBatch",
                  "uniformBytesTopicPartitioner.PartitionByBackup",
                  "basicTopicPartitioner.Partition", "ManualPartitioner",
                  "basicTopicPartitioner.RequiresConsistency", "roundRobinTopicPartitioner.RequiresConsistency",
                  "stickyTopicPartitioner.RequiresConsistency", "stickyKeyTopicPartitioner.RequiresConsistency",
                  "leastBackupTopicPartitioner.RequiresConsistency", "uniformBytesTopicPartitioner.RequiresConsistency"]),
            ("pkg/kgo/producer.go", ["Client.doPartition", "Client.loadPartsAndPartition"]),
            ("pkg/kgo/metadata.go", ["metadataTopic.newPartitions"])],
    group_by_reset=True,
    rule="mm: keys of every length 0..64 (nil, empty, all-0x00/0xff/high-bit patterns), long keys, all 1-byte keys (thorough: all 2-byte keys); "
         "non-trivial = non-empty key. hk/hr: hashers over murmur2/fnv32a and over chosen hash values around the sign bit, n in [1, 2^31-1] "
         "weighted to small values, powers of two +-1 and the int32 maximum; non-trivial = n >= 2. "
         "p/nb groups: one topic partitioner per group (round robin, sticky, sticky key, least backup, uniform bytes with every "
         "adaptive/keys/hasher/limit combination) driven by 8-37 ops mixing same/shrinking/growing n, OnNewBatch, keyed records from a small key pool, "
         "tied and extreme backup counts; 75% of groups with an injected random source (exact comparison), 25% with the partitioner's own "
         "(trace acceptance); non-trivial = n >= 2. rc: RequiresConsistency(record) of the group's topic partitioner for nil / empty non-nil / "
         "non-empty keys (in direct and client groups); non-trivial = non-nil key, or any key under a partitioner with key logic. sel groups: one client per partitioner configuration "
         "(the above plus ManualPartitioner, BasicConsistentPartitioner over a hasher, the client's default partitioner), a producer topic "
         "whose shape is set before every record by a verif hook (1-24 partitions that only grow, writable subset = all / all but one / random / "
         "one / none, tied and extreme buffered counts, topic load error none / retriable / fatal), records (25% empty non-nil key, 47% pool "
         "keys, 28% nil key; ManualPartitioner: partition numbers in and out of range) through the public Produce; 80% with a constant injected "
         "random draw (exact comparison of the partition incl. the OnNewBatch re-pick), 20% with the partitioner's own source (keyed exact, unkeyed by the Spec); "
         "non-trivial = >= 2 partitions. e2e groups (first group of every run: default partitioner, one leader outage per partition; plus 6/40 more): "
         "real client against kfake whose Metadata responses mark partitions LEADER_NOT_AVAILABLE, the same keys (empty key first) before / during / after "
         "outages, then the outage ends and every record must be delivered to the partition it was buffered on; non-trivial = during an outage. prod: records with chosen Partition through a real client with ManualPartitioner to kfake "
         "(1/3/8 partitions); always non-trivial. distinct = distinct op lines.",
    trusted_base=["hand-written Lean model of pkg/kgo/partitioner.go (murmur2, hashers, five partitioners + basic/manual, RequiresConsistency of each, backup iterator) "
                  "and of doPartition (mapping choice between all and writable partitions, Partition vs PartitionByBackup, range check, mapping[pick], OnNewBatch re-pick), "
                  "tied to the code by differential runs through the public interfaces and the public Produce path (+ verif hooks: murmur2 export, rand injection, "
                  "backup iterator constructor, producer-topic shape setter/reader)",
                  "recBuf.bufferRecord is abstracted to three outcomes per partition (fits the open batch / needs a new batch / fails in the buffer); the driver derives "
                  "them from which partitions already received a record in the group",
                  "kfake and its Metadata control hook for the end-to-end outage ops",
                  "Spec transcriptions from memory of Apache Kafka Utils.murmur2/toPositive and of Sarama's hash partitioner (no network in the sandbox); "
                  "the six murmur2 vectors of Kafka's UtilsTest are part of every run",
                  "math/rand, hash/fnv, float arithmetic of the adaptive uniform-bytes pick: modelled (draw = any value allowed by the contract; adaptive pick = any element of calc), not verified",
                  "Lean compiler/runtime for the driver"],
    assumptions=["64-bit Go int (SaramaHasher is int-width dependent by its own documentation)",
                 "1 <= n <= 2^31-1 for the partitioner theorems (partition counts are int32 on the wire); the hasher formulas hold for every n >= 1 except SaramaCompatHasher, whose int32(n) conversion needs n <= 2^31-1",
                 "PartitionByBackup is called as doPartition calls it: n = len(mapping), buffered counts are int64 values",
                 "partsData.partitions[i] is partition number i and writablePartitions is a sub-list of it (metadataTopic.newPartitions); "
                 "1 <= len(partitions) <= 2^31-1 (Produce never reaches doPartition with no partitions); the keyed-record theorems assume nothing about writablePartitions",
                 "record/key/header lengths < 2^30 and UniformBytes limit + record size < 2^63 (no int overflow in the byte accounting)"],
)
MANIFEST = {
    "text": "Lean theorems, for all keys / hash values / n and all operation sequences: the Go murmur2 (BitVec 32 model) equals an independent "
            "transcription of Java Utils.murmur2 (signed bytes, int arithmetic as explicit mod 2^32, index loop) by induction over 4-byte chunks and tail cases; "
            "KafkaHasher = toPositive(hash) mod n, the default hasher = the Java client's partition, SaramaCompatHasher = |int32 hash| mod n, "
            "SaramaHasher = unsigned hash mod n; every built-in hasher never panics and is in [0,n); for round-robin, sticky, sticky-key, least-backup "
            "(with the real iterator) and uniform-bytes, every sequence of partition calls with arbitrary n_i in [1,2^31-1] (shrinking or growing), "
            "OnNewBatch events, backup counts and random draws never panics and every pick is in [0,n_i); keyed picks ignore the state (equal keys, "
            "equal n => equal partition); doPartition rejects exactly the picks outside [0,len). Client side: RequiresConsistency(r) holds iff the partitioner's key "
            "branch is taken for r (then the pick is hasher(key,n) from every state; otherwise the hasher is never consulted; basic/manual always require it); for every "
            "record whose key is non-nil (the empty key included) under sticky-key / uniform-bytes with keys, every state, topic of 1..2^31-1 partitions and EVERY "
            "writable subset, buffered counts, batch states and draws, doPartition hands the record to partition number hasher(key, len(all partitions)) looked up in all "
            "partitions (= toPositive(murmur2(key)) % len(all) for the default hasher): equal keys keep their partition across leader outages (Model => Spec selOk); "
            "records that require consistency never read the writable subset; every record is placed on a partition of the topic, a writable one when it does not require "
            "consistency and one exists. The model is tied to the code by differential runs "
            "(exact with an injected random source, trace acceptance with the real one), and the Spec is evaluated on the implementation's outputs.",
    "note": "Trusted: Lean kernel; the hand-written model (validated differentially, not verified); the remembered Java/Sarama reference formulas; "
            "math/rand, hash/fnv and the float arithmetic of the adaptive pick are abstracted (any draw allowed by the contract / any element of calc); "
            "64-bit int; n <= 2^31-1; trace-acceptance predicates of the driver are an oracle without a completeness proof.",
    "technique": "Lean 4 proof (induction over chunks; invariant over operation sequences; case analysis of doPartition) with differential correspondence against the Go code "
                 "through public interfaces, the public Produce path on hook-shaped producer topics, and kfake leader outages end to end",
}
