from lib.pipeline import Prop
PROP = Prop(
    "C27",
    models=[("pkg/kgo/group_balancer.go", ["BalancePlan.AdjustCooperative", "stickyBalancer.Balance", "stickyBalancer.JoinGroupMetadata", "NewConsumerBalancer"])],
    group_by_reset=True,
    rule="one case = one history of cooperative rebalance rounds through the real cooperative-sticky balancer: first round (`reset M T`) on a generated group "
         "(ownership claims with stale generations, conflicting claims, unsubscribed owners, racks), then `next` rounds in which every member owns "
         "exactly its last adjusted plan and rejoins with real JoinGroupMetadata at the next generation, interleaved with membership / subscription "
         "changes (drop, join, resubscribe). Small-scope enumeration (<=3 members x <=2 topics x <=3 partitions, all claimant sets, stale-generation "
         "patterns) plus random groups up to 200 members x 50 topics. non-trivial = a round with at least 2 members and at least one ownership claim "
         "(AdjustCooperative and the safety Spec have something to decide); the distribution lists how many rounds withheld partitions "
         "(round_k_withholds). distinct = distinct op lines.",
    trusted_base=["hand-written model of AdjustCooperative (shared with C25) and of the revoke-and-rejoin step, tied to the code by exact differential "
                  "runs (adjusted plan compared on every round; rejoin metadata produced by the real stickyBalancer.JoinGroupMetadata)",
                  "the sticky engine is NOT modelled: the safety theorem quantifies over every plan that plans each partition at most once for group members "
                  "(checked on the real plan every round); convergence is proved under the named hypothesis StickyKeepsOwned / StickyStable, which the "
                  "differential run evaluates on the real engine in every `next` round",
                  "verif hook repeating the 15 lines of stickyBalancer.Balance to expose the plan before AdjustCooperative",
                  "harness generators; Lean compiler/runtime for the driver"],
    assumptions=["members revoke exactly what the adjusted plan did not give them and rejoin together at the next generation (the client's diffAssigned / "
                 "revoke / rejoin and the broker are covered by other properties, not driven here)",
                 "owned partitions are non-negative; ASCII names; member ids and subscriptions without duplicates (C25 covers the malformed ones)"],
    partial="convergence is conditional: second_round_settles_partial (under StickyKeepsOwned) and two_round_convergence_partial (under StickyStable); "
            "the unconditional statement is refuted for abstract engines (convergence_needs_engine_hypothesis) and the real sticky engine violates "
            "StickyKeepsOwned on some histories (finding coop-sticky-moves-owned-in-round2).",
)
MANIFEST = {
    "text": "Lean theorems: for every group (any ownership claims, stale and conflicting generations) and every plan that assigns each partition at most "
            "once to group members, AdjustCooperative never hands a partition to a member while another member still owns it with a current "
            "(maximal-generation) claim; if the sticky engine, re-run after members revoked and rejoined, keeps every partition where it is, the second "
            "rebalance withholds nothing and moves nothing (and equals the first plan if the engine is stable). AdjustCooperative and the rejoin step are "
            "tied to the code by exact differential runs over multi-round histories; the engine hypotheses are evaluated on the real sticky engine each round.",
    "note": "Trusted: Lean kernel; hand-written model of AdjustCooperative and of revoke-and-rejoin (validated differentially); generators. The sticky engine is "
            "not modelled; convergence is conditional on a named hypothesis about it, which the real engine does not always satisfy (known finding).",
    "technique": "Lean 4 proof (safety for all inputs; conditional two-round convergence) with differential multi-round histories against the real balancer",
}
