from lib.pipeline import Prop
PROP = Prop(
    "C26",
    models=[("pkg/kgo/internal/sticky/sticky.go", ["balancer.parseMemberMetadata", "balancer.assignUnassignedAndInitGraph", "balancer.tryRestickyStales",
                                                    "balancer.assignRackAware", "balancer.balance", "balancer.balanceComplex", "balancer.reassignPartition",
                                                    "BalanceWithRacks"]),
            ("pkg/kgo/internal/sticky/graph.go", ["graph.findSteal"]),
            ("pkg/kgo/group_balancer.go", ["stickyBalancer.Balance"])],
    rule="one case = one run of the real sticky engine (StickyBalancer through MemberBalancer/BalanceOrError/IntoSyncAssignment; "
         "cooperative-sticky's engine run through the verif hook returning the plan before AdjustCooperative) on one group, with the engine's "
         "decision trace, plus a second run in which every member rejoins owning exactly the plan. Small scopes enumerated: <=3 members x <=3 topics x "
         "<=3 partitions, every subscription pattern x every single-claimant prior ownership (any member or nobody per partition; sub-sampled in quick), "
         "and every claimant SET per partition (conflicting claims) x stale-generation patterns for the smaller scopes; random structured groups (C25's "
         "generator: perturbed previous assignment, stale generations, conflicting claims, unknown/shrunk topics, duplicate ids/topics, racks); groups with "
         "uneven subscriptions (ring-shaped and sparse) and heavily skewed priors, where balancing needs chains of moves; groups up to 200 members x 60 topics. "
         "non-trivial = at least 2 members and at least 2 partitions somebody subscribes to. distinct = distinct op lines.",
    trusted_base=["the acceptor Model.C26.step is hand-written; it is tied to the engine by replaying the decision trace of EVERY generated run "
                  "(verif trace sink in pkg/kgo/internal/sticky): every event must be accepted (guards re-checked, give-up recomputes reachability) and the final "
                  "state must print exactly the plan the engine returned; parseMemberMetadata is modelled exactly and compared through the init event",
                  "the Spec (Optimal, validPlan, both stability checks) is ALSO evaluated directly on the engine's returned plans, independent of the trace",
                  "verif trace hook: 14 one-line call sites in sticky.go (no-ops without the verif tag); harness generators and canonical printing; Lean compiler/runtime for the driver",
                  "Std.HashMap (Lean standard library) represents the owner function in model and proofs"],
    assumptions=["member ids and topic names are ASCII without the separator characters of the line protocol; owned partitions are non-negative int32 "
                 "(negative claims are not generated); topic names in the topics map are distinct",
                 "rack-aware runs are IN scope (the property quantifies over all inputs and does not exempt racks): the engine only uses racks to break ties "
                 "(complex path) or pre-assigns under a quota before the same balancing loop (simple path), so optimality is expected and was observed to hold"],
    partial="Proved for all inputs and all accepted traces: accepted traces ending in `done` are Optimal and valid (also as C25's validPlan); stability both "
            "from a valid optimal parsed state and from valid optimal priors as the members list them (parseMemberMetadata model proved to reproduce "
            "conflict-free priors). Not proved but re-checked on every real trace: that the real findSteal / level tree agree with the acceptor's guards "
            "(in particular 'no path found' = 'no path exists': the give-up guard recomputes reachability), and that drop/restick/assign leave a valid "
            "plan when balancing starts (the acceptor checks validity once on entering the balancing phase). Kernel-checked non-vacuity examples: a "
            "full accepted trace with a two-segment steal path, one with a give-up and loads 3/1, a stability instance; for the priors theorem only "
            "the hypotheses about the priors are instantiated (Std.HashMap.fold over a non-empty map does not evaluate symbolically).",
)
MANIFEST = {
    "text": "Lean theorems over an abstract model of the sticky engine (an acceptor of its decision events: drop, restick, assign, steal path, give up, done), "
            "for groups of any size and traces of any length: every accepted trace that ends with `done` yields a plan in which no partition can move, directly or "
            "through a chain of moves between subscribers, to a member holding at least two fewer (key lemma: a member that gave up stays unable to improve across "
            "all later steals); validity is kept by every steal; when the assignments the members list are valid and optimally balanced no plan-changing decision is accepted, "
            "so the plan is exactly the listed one (the model of parseMemberMetadata is proved to reproduce conflict-free priors). The real engine is tied to the acceptor on every run: its recorded decision trace must be accepted event by event (the give-up "
            "guard recomputes reachability, which is where findSteal's completeness is checked) and must end in the returned plan. Independently, optimality, "
            "validity and both stability readings are evaluated on the real engine's output for every generated input (exhaustive small scopes, random groups "
            "up to 200 members, racks, stale generations, conflicting claims).",
    "note": "Trusted: Lean kernel; the hand-written acceptor (validated against every real trace, not derived from the Go source); the trace hook call sites; "
            "generators. Not proved: the level tree / Dijkstra search themselves (their decisions are re-checked per run), that the assignment phase ends valid "
            "(re-checked per run).",
    "technique": "Lean 4 proof (invariants over an event acceptor; graph reachability with closure certificates) with trace-replay correspondence against the real "
                 "engine and the Spec evaluated on real outputs",
}
