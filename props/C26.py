from lib.pipeline import Prop
PROP = Prop(
    "C26",
    models=[("pkg/kgo/internal/sticky/sticky.go", ["balancer.parseMemberMetadata", "balancer.assignUnassignedAndInitGraph", "balancer.tryRestickyStales",
                                                    "balancer.balance", "balancer.balanceComplex", "balancer.reassignPartition", "BalanceWithRacks"]),
            ("pkg/kgo/internal/sticky/graph.go", ["graph.findSteal"])],
    rule="preliminary",
    trusted_base=[],
    assumptions=[],
)
MANIFEST = {"text": "preliminary", "note": "preliminary", "technique": "preliminary"}
