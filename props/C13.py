from lib.pipeline import Prop
PROP = Prop(
    "C13", harness="sim", quick=["--mode", "cls"], thorough=["--mode", "cls"], harness_kind="test", tags="verif synctests", driver="C13",
    models=[("pkg/kgo/client.go", ["Client.Close", "Client.close", "Client.CloseAllowingRebalance"])],
    rule="scenario = a client that produces (2 goroutines), consumes in a group next to a second member (with or without BlockRebalanceOnPoll, then CloseAllowingRebalance), does both, or runs "
         "transactions, closed 0-1500 ms (virtual) after start with brokers responsive, slow (every request delayed 100-1000 ms) or unreachable (all connections cut, dials refused); one scenario in "
         "three is a slot scenario: a consumer (direct on a topic, direct on listed partitions, or in a group next to a member that joins and leaves repeatedly) with MaxConcurrentFetches 1-3 on 3-8 "
         "brokers that each lead one or two partitions of the topic (more fetch sources than slots), records flowing on every partition; right behind polls (after 0-4 Gosched calls or a counted busy "
         "loop of up to tens of microseconds of real time, so that it lands while a freed slot is handed to a waiting source) the session is stopped 0-16 times by SetOffsets, "
         "RemoveConsumePartitions+AddConsumePartitions or reshaped by pause/resume, and finally by Close, called by the poller right behind its poll or concurrently with it; after Close a "
         "poll is issued, every other client of the scenario is closed, everything is given 5 s of virtual time and the goroutines of the bubble that still have a pkg/kgo frame are counted (event L, "
         "with state, function, file#line and creator of each); history = produce calls and promises, Close start and its virtual duration, the poll result, the count; a client goroutine still "
         "blocked at the end also makes the synctest bubble panic and is reported as the scenario outcome, with the history (and its L event) as tail; both map to the key "
         "C13.goroutines-remain-after-close; non-trivial = promises were outstanding when Close began, or the client only consumes",
    trusted_base=["history monitor Model.Close", "testing/synctest (virtual time; refuses to end a bubble with blocked goroutines)", "runtime.Stack (goroutine dump with bubble labels, read by harness/sim/leftover.go)", "harness/sim", "Lean compiler/runtime for the driver"],
    assumptions=["Close must return within 60 s of virtual time (observed maximum on the unchanged tree about 9 s)", "no produce call begins after Close has begun"],
    partial="The wall-clock bound of Close and the absence of leftover goroutines are runtime behaviour: they are observed inside synctest bubbles (virtual time, blocked-goroutine detection) and enter "
            "the monitor as events; they are not theorems about the code. Races that need a session stop inside a window of a few microseconds of real time (e.g. between the fetch-concurrency "
            "manager granting a slot and the woken source looking at its session) are sampled, not enumerated: the scenarios put Close and other session stops right behind polls many times per "
            "run, the schedule itself is the Go scheduler's. Leader moves are not used as session stops (a fetch answered NOT_LEADER with the new leader attached is re-issued without back-off "
            "until the metadata loop runs the move; against kfake that loop never lets the virtual clock advance). Share-group and mid-transaction End placements are exercised by the share/txn "
            "scenarios, not here.",
    run_timeout={"quick": 900, "thorough": 3400},
)
MANIFEST = {
    "text": "Partial. Verified monitor: Lean theorems over ALL accepted Close histories: Close returned within the bound whenever it returned, no goroutine leak was observed and every count of client goroutines "
            "taken after Close was zero, promises only for produced records and never twice, and at quiescence Close has returned, every produce promise was called, a poll after Close reported "
            "ErrClientClosed and the goroutines were counted (none left). Tie: history correspondence with real kgo clients (producer, group consumer, both, transactional, and direct/group consumers "
            "with bounded fetch concurrency on 3-8 brokers whose session is stopped right behind polls) x kfake closed at arbitrary moments with responsive, slow or unreachable brokers.",
    "note": "Trusted: Lean kernel; monitor vocabulary; harness; testing/synctest's virtual clock, its blocked-goroutine detection and the runtime's goroutine dump are what observe 'bounded time' and "
            "'nothing left running' - runtime behaviour a theorem cannot exhibit. Real-time Close latency is not measured. Microsecond-wide races are sampled under the real Go scheduler (hit rates "
            "depend on machine load), not explored exhaustively.",
    "technique": "Lean 4 proof over a history monitor with history correspondence against kgo x kfake in synctest bubbles (partial: runtime residue observed, not proved)",
}
