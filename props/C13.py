from lib.pipeline import Prop
PROP = Prop(
    "C13", harness="sim", quick=["--mode", "cls"], thorough=["--mode", "cls"], harness_kind="test", tags="verif synctests", driver="C13",
    models=[("pkg/kgo/client.go", ["Client.Close", "Client.close", "Client.CloseAllowingRebalance"])],
    rule="scenario = a client that produces (2 goroutines), consumes in a group next to a second member (with or without BlockRebalanceOnPoll, then CloseAllowingRebalance), does both, or runs "
         "transactions, closed 0-1500 ms (virtual) after start with brokers responsive, slow (every request delayed 100-1000 ms) or unreachable (all connections cut, dials refused); after Close a "
         "poll is issued and everything is given 5 s of virtual time; history = produce calls and promises, Close start and its virtual duration, the poll result; a client goroutine still blocked at "
         "the end makes the synctest bubble panic and is reported as the scenario outcome; non-trivial = promises were outstanding when Close began, or the client only consumes",
    trusted_base=["history monitor Model.Close", "testing/synctest (virtual time; refuses to end a bubble with blocked goroutines)", "harness/sim", "Lean compiler/runtime for the driver"],
    assumptions=["Close must return within 60 s of virtual time (observed maximum on the unchanged tree about 9 s)", "no produce call begins after Close has begun"],
    partial="The wall-clock bound of Close and the absence of leftover goroutines are runtime behaviour: they are observed inside synctest bubbles (virtual time, blocked-goroutine detection) and enter "
            "the monitor as events; they are not theorems about the code. Share-group and mid-transaction End placements are exercised by the share/txn scenarios, not here.",
    run_timeout={"quick": 900, "thorough": 3400},
)
MANIFEST = {
    "text": "Partial. Verified monitor: Lean theorems over ALL accepted Close histories: Close returned within the bound whenever it returned, no goroutine leak was observed, promises only for "
            "produced records and never twice, and at quiescence Close has returned, every produce promise was called and a poll after Close reported ErrClientClosed. Tie: history correspondence with "
            "real kgo clients (producer, group consumer, both, transactional) x kfake closed at arbitrary moments with responsive, slow or unreachable brokers.",
    "note": "Trusted: Lean kernel; monitor vocabulary; harness; testing/synctest's virtual clock and its blocked-goroutine detection are what observe 'bounded time' and 'nothing left running' - "
            "runtime behaviour a theorem cannot exhibit. Real-time Close latency is not measured.",
    "technique": "Lean 4 proof over a history monitor with history correspondence against kgo x kfake in synctest bubbles (partial: runtime residue observed, not proved)",
}
