import json
from lib.pipeline import Prop
from lib import pipeline as P
EX = "{REPO}"
SEQ_FIELDS = "recBuf.seq,recBuf.batch0Seq,seqRecBatch.seq"
ALLOWED_FORMS = ("inc", "copy", "zero-at-reset")


def seq_site_obligations():
    """Tie T for the client's USES of sequence arithmetic: every write to recBuf.seq / recBuf.batch0Seq /
    seqRecBatch.seq in pkg/kgo is enumerated from the AST on every run (tools/extract seqsites-json); each site is
    one obligation: its right-hand side is incrementSequence(field, n), a copy of a sequence field, or the literal
    0 under needSeqReset. The obligation names carry the enumeration into the evidence."""
    ex = P.build_extract()
    rc, out, err = P.sh([ex, "seqsites-json", P.REPO + "/pkg/kgo", "Gen.C29S", "Gen.C29.incrementSequence", SEQ_FIELDS], timeout=120)
    if rc != 0:
        return [("sequence-sites: enumerate writes to %s in pkg/kgo" % SEQ_FIELDS, False, err.strip()[-1500:])]
    res = []
    for s in json.loads(out):
        ok = s["form"] in ALLOWED_FORMS
        name = "sequence-site %s %s: `%s` [%s]" % (s["loc"], s["fn"], s["src"], s["form"])
        detail = "" if ok else ("%s: the write `%s` to %s in %s is not incrementSequence(field, n), a copy of a sequence field or the reset to 0 "
                                "(form: %s; value written: %s) — sequence arithmetic outside incrementSequence does not wrap at 2^31"
                                % (s["loc"], s["src"], s["target"], s["fn"], s["form"], s["lean"]))
        res.append((name, ok, detail))
    return res


PROP = Prop(
    "C29",
    gen=[("FranzVerif/Gen/C29.lean",
          ["cat", "intfunc", EX + "/pkg/kgo/sink.go", "incrementSequence", "Gen.C29", "--",
           "remconsts", EX + "/pkg/kfake/txns.go", "pidwindow.pushAndValidate", "Gen.C29K", "kfakeSeqMod", "next", "--",
           "seqsites", EX + "/pkg/kgo", "Gen.C29S", "Gen.C29.incrementSequence", SEQ_FIELDS])],
    models=[("pkg/kfake/txns.go", ["pidwindow.pushAndValidate"]),
            ("pkg/kgo/sink.go", ["incrementSequence", "Client.finishBatch", "recBuf.resetBatchDrainIdx", "seqRecBatches.addBatch"])],
    extra_obligations=seq_site_obligations,
    group_by_reset=True,
    rule="inc: boundary grid and random (s,n); non-trivial = s+n within 8 of 2^31 or beyond. "
         "push: histories of raw produce requests to the real kfake (fresh producer id per history, window seeded near the wrap), "
         "mix of correct next / retries of the last 1..7 batches / off-by-one sequences / epoch bumps; "
         "non-trivial = answer other than accept, or batch ending within 64 of 2^31. "
         "scen: the real kgo producer against the real kfake, the partition's sequence set to 2^31-k by the verif hook, batches crossing the wrap, "
         "then forced rewinds (leader moves, retriable error answers, connection cut before / after the broker handled a produce request, "
         "up to 5 requests in flight); non-trivial = the history crosses 2^31 and contains a re-sent batch. distinct = distinct op lines.",
    trusted_base=["tools/extract (Go AST -> Lean translator for incrementSequence, the modulus constant of pushAndValidate, and the values written "
                  "at every write to recBuf.seq / recBuf.batch0Seq / seqRecBatch.seq in pkg/kgo)",
                  "hand-written model of pidwindow.pushAndValidate and of the epoch glue in 00_produce.go, tied by differential runs through raw produce requests",
                  "hand-written control flow of the client model (which recBuf operation happens when; the writes themselves are regenerated), "
                  "tied by the chain monitor over histories of the real client near the wrap",
                  "verif hook kgo.VerifC29SetPartitionSequence (sets recBuf.seq/batch0Seq before the first produce; 2^31 records cannot be produced in a test)",
                  "Lean compiler/runtime for the driver"],
    assumptions=["sequence numbers and batch sizes are non-negative int32 values (what the wire carries)",
                 "producer epoch -1 (non-idempotent) is outside the property",
                 "a partition never has 2^31 or more records buffered at once (client model)"],
)
MANIFEST = {
    "text": "Lean theorems for all s,n: the regenerated client incrementSequence equals (s+n) mod 2^31; every write to a sequence field in pkg/kgo "
            "(enumerated from the AST on every run) is incrementSequence(field, n), a copy or the reset to 0, and for every schedule of client "
            "operations (drain, ack, rewind, producer-id failure) started at any sequence — in particular across the wrap — what the client model "
            "with those regenerated writes sends is one chain first' = (first+n) mod 2^31, never negative, re-sent batches carrying their original "
            "first sequence; kfake's window model (with the modulus regenerated from the source) refines the abstract 'last five accepted batches' "
            "spec on every push history (accept next, dup with original offset, reject otherwise). The kfake model is tied to the code by "
            "differential runs through raw produce requests; the client model by histories of the real client against the real kfake with the "
            "partition's sequence set just below 2^31 and forced rewinds, judged by the same chain monitor.",
    "note": "Trusted: Lean kernel; tools/extract translator; the hand-written model of pushAndValidate and the produce-handler epoch glue (validated differentially, "
            "not verified); the control flow of the client model (validated on histories, not verified; the interleaving of producer-id failure "
            "with in-flight requests is modelled atomically); the verif hook that sets a partition's sequence; non-negative int32 sequences; epoch -1 excluded.",
    "technique": "Lean 4 proof (regenerated definitions + refinement / invariant by induction over histories) with differential and history correspondence against kfake and the real client",
}
