from lib.pipeline import Prop
EX = "{REPO}"
PROP = Prop(
    "C29",
    gen=[("FranzVerif/Gen/C29.lean",
          ["cat", "intfunc", EX + "/pkg/kgo/sink.go", "incrementSequence", "Gen.C29", "--",
           "remconsts", EX + "/pkg/kfake/txns.go", "pidwindow.pushAndValidate", "Gen.C29K", "kfakeSeqMod", "next"])],
    models=[("pkg/kfake/txns.go", ["pidwindow.pushAndValidate"]), ("pkg/kgo/sink.go", ["incrementSequence"])],
    group_by_reset=True,
    rule="inc: boundary grid and random (s,n); non-trivial = s+n within 8 of 2^31 or beyond. "
         "push: histories of raw produce requests to the real kfake (fresh producer id per history, window seeded near the wrap), "
         "mix of correct next / retries of the last 1..7 batches / off-by-one sequences / epoch bumps; "
         "non-trivial = answer other than accept, or batch ending within 64 of 2^31. distinct = distinct op lines.",
    trusted_base=["tools/extract (Go AST -> Lean translator for incrementSequence and the modulus constant of pushAndValidate)",
                  "hand-written model of pidwindow.pushAndValidate and of the epoch glue in 00_produce.go, tied by differential runs through raw produce requests",
                  "Lean compiler/runtime for the driver"],
    assumptions=["sequence numbers and batch sizes are non-negative int32 values (what the wire carries)",
                 "producer epoch -1 (non-idempotent) is outside the property"],
)
MANIFEST = {
    "text": "Lean theorems for all s,n: the regenerated client incrementSequence equals (s+n) mod 2^31; kfake's window model (with the modulus "
            "regenerated from the source) refines the abstract 'last five accepted batches' spec on every push history (accept next, dup with original "
            "offset, reject otherwise). The kfake model is tied to the code by differential runs through raw produce requests against the real kfake.",
    "note": "Trusted: Lean kernel; tools/extract translator; the hand-written model of pushAndValidate and the produce-handler epoch glue (validated differentially, "
            "not verified); non-negative int32 sequences; epoch -1 excluded.",
    "technique": "Lean 4 proof (regenerated definitions + refinement by induction over histories) with differential correspondence against kfake",
}
