from lib.pipeline import Prop
F = "pkg/kgo/record_and_fetch.go"
PROP = Prop(
    "C38",
    models=[(F, ["Fetches.RecordIter", "FetchesRecordIter.Done", "FetchesRecordIter.Next", "FetchesRecordIter.prepareNext",
                 "Fetches.RecordsAll", "Fetches.EachRecord", "Fetches.Records", "Fetches.NumRecords", "Fetches.Empty",
                 "Fetches.EachPartition", "Fetches.EachTopic", "Fetches.Errors", "Fetches.EachError", "Fetches.Err",
                 "Fetches.Err0", "Fetches.IsClientClosed"])],
    rule="one case = one kgo.Fetches value built in-process (record identity in Record.Offset) on which every accessor is called "
         "(RecordIter Done/Next loop, range RecordsAll with and without a break after `lim` records, EachRecord, Records, NumRecords, "
         "Empty, EachPartition, EachTopic, Errors, EachError, Err, Err0, IsClientClosed). Shapes: fixed boundary shapes, random shapes with "
         "0-4 fetches x 0-4 topics (names from a pool of 5 incl. the empty name, so topics repeat across and inside fetches; IDs mostly one "
         "non-zero ID per name, sometimes zero, rarely a conflicting one) x 0-4 partitions (40% without records, 30% with an error), a few large "
         "shapes (up to 30x8x8x20); thorough adds every skeleton with <= 3 fetches, <= 2 topics, <= 2 partitions, 0 or 2 records per partition "
         "(185k shapes). non-trivial = the shape has at least 2 partitions. distinct = distinct op lines.",
    trusted_base=["hand-written model of the Fetches accessors (Model/C38.lean), tied to the code by differential runs on generated shapes",
                  "harness/cmd/c38 (shape builder, canonical printing; EachTopic output sorted by topic name when there are >= 2 fetches because Go map order is random)",
                  "Lean compiler/runtime for the driver"],
    assumptions=["a record is represented by its identity only; FetchPartition fields other than Partition, Err and Records are not observed",
                 "EachTopic's topic-ID clause is stated for the multi-fetch (merging) case; with a single fetch topics pass through unchanged"],
)
MANIFEST = {
    "text": "Lean theorems for every Fetches value (no bound on fetches/topics/partitions/records): the RecordIter index machine (prepareNext) terminates from "
            "every state (explicit fuel = structural size, proved sufficient), Next never indexes out of range, and RecordIter, RecordsAll (also with an early "
            "break), EachRecord and Records all yield the input's records in fetch/topic/partition order; NumRecords is that count and Empty holds iff it is 0; "
            "EachPartition lists every partition once in order; EachTopic reports under every topic name exactly that topic's partitions in order (a permutation of "
            "EachPartition's pairs), one entry per name when there are several fetches, keeping a non-zero topic ID when any fetch carried one; Errors and "
            "EachError list exactly the partitions with a non-nil error. The model is tied to record_and_fetch.go by differential runs on generated Fetches values.",
    "note": "Trusted: Lean kernel; the hand-written model of the accessors (validated differentially, not verified against the Go source); the harness's "
            "canonical printing. Err/Err0/IsClientClosed are modelled and compared differentially but carry no theorem (outside the property text).",
    "technique": "Lean 4 proof (index machine vs. structural flatten by invariant + termination measure; association-list lemmas for EachTopic) with differential correspondence",
}
