from lib.pipeline import Prop
PROP = Prop(
    "C09", harness="sim", quick=["--mode", "cmt"], thorough=["--mode", "cmt"], harness_kind="test", tags="verif synctests", driver="C09",
    models=[("pkg/kgo/consumer_group.go", ["Client.CommitOffsets", "Client.CommitOffsetsSync", "Client.CommitRecords", "groupConsumer.commit", "groupConsumer.updateCommitted"])],
    rule="scenario = one group member issuing 4-19 commits in sequence through CommitOffsets (async), CommitOffsetsSync and CommitRecords over 1-4 partitions (commit k carries offset 1000+k "
         "for a random subset of partitions) against a real kfake whose coordinator is slow or answers COORDINATOR_LOAD_IN_PROGRESS / NOT_COORDINATOR / REQUEST_TIMED_OUT / UNKNOWN_TOPIC_OR_PARTITION, "
         "optionally while a second member joins and leaves (rebalances); history = issue/finish of every commit, every OffsetCommit request and answer at the coordinator, CommittedOffsets and OffsetFetch "
         "at the end; non-trivial = at least 4 commits and an error answer or at least 8 commits",
    trusted_base=["history monitor Model.Commit", "harness/sim wire observation (kmsg parsing of OffsetCommit)", "Lean compiler/runtime for the driver"],
    assumptions=["commits are issued from one goroutine in sequence", "CommitUncommittedOffsets is not generated (it commits polled positions, not chosen offsets)"],
    run_timeout={"quick": 900, "thorough": 3400},
)
MANIFEST = {
    "text": "Verified monitor: Lean theorems over ALL accepted commit histories: the commit offsets seen at the coordinator never decrease (commits arrive in issue order, retries included), every "
            "request belongs to an issued commit, and after all commits finished the group's offset and CommittedOffsets of every partition equal its value in the last commit the coordinator "
            "answered without error. Tie: history correspondence with a real kgo group member x kfake under slow and failing commit answers and concurrent rebalances.",
    "note": "Trusted: Lean kernel; monitor vocabulary; harness. Partitions without any successful commit are not judged. Theorems quantify over all histories; the correspondence samples schedules.",
    "technique": "Lean 4 proof over a history monitor with history correspondence against kgo x kfake in synctest bubbles",
}
