from lib.pipeline import Prop
PROP = Prop(
    "C09", harness="sim", quick=["--mode", "cmt"], thorough=["--mode", "cmt"], harness_kind="test", tags="verif synctests", driver="C09",
    models=[("pkg/kgo/consumer_group.go", ["Client.CommitOffsets", "Client.CommitOffsetsSync", "Client.CommitRecords", "Client.CommitMarkedOffsets", "Client.commitOffsets", "groupConsumer.commit", "groupConsumer.updateCommitted"])],
    rule="scenario = one group member issuing 4-19 commits in sequence through CommitOffsets (async), CommitOffsetsSync and CommitRecords over 1-4 partitions of topic t and, in 70% of the scenarios, "
         "of a second consumed topic a whose name sorts first (a partition is topic+number, written 100*topic+number; commit k carries offset 1000+k for a random subset of the partitions of both topics) "
         "against a real kfake whose coordinator is slow or answers COORDINATOR_LOAD_IN_PROGRESS / NOT_COORDINATOR / REQUEST_TIMED_OUT / UNKNOWN_TOPIC_OR_PARTITION for a whole request, "
         "with MIXED per-partition answers from two sources: topic a is deleted through a separate admin client before a random commit (45% of the two-topic scenarios; later answers are UNKNOWN_TOPIC_ID / "
         "UNKNOWN_TOPIC_OR_PARTITION for a's partitions and success for t's), and in half of the scenarios 15-50% of the answers are rewritten on the wire (sim.Net.MutateResponse): the first 1..n-1 partitions "
         "in the client's processing order that the coordinator answered with success are shown OFFSET_METADATA_TOO_LARGE / INVALID_COMMIT_OFFSET_SIZE / TOPIC_AUTHORIZATION_FAILED (event Wt: partition tainted); "
         "in a third of the scenarios without a second member the member uses AutoCommitMarks (interval beyond the scenario) and 40% of its commits are MarkCommitOffsets(every partition -> 1000+k) + CommitMarkedOffsets; optionally commits whose own context ends early and a second member that joins and leaves (rebalances); history = issue/finish of every commit, every OffsetCommit request and the answer shown to "
         "the client per partition, taints, the topic deletion, CommittedOffsets and OffsetFetch at the end; non-trivial = at least 4 commits and an error answer or at least 8 commits",
    trusted_base=["history monitors Model.Commit and Model.CommitReport", "harness/sim wire observation and rewriting (kmsg parsing / re-encoding of OffsetCommit)", "Lean compiler/runtime for the driver"],
    assumptions=["commits are issued from one goroutine in sequence", "CommitUncommittedOffsets itself is not generated (it commits polled positions, not chosen offsets); its tail, Client.commitOffsets, is reached through MarkCommitOffsets + CommitMarkedOffsets in mark-mode scenarios",
                 "final-value clauses are not judged for a partition whose successful answer was rewritten into an error on the wire (until its next genuinely successful answer) nor for partitions of a deleted topic; "
                 "every other partition of the same answer is judged"],
    run_timeout={"quick": 900, "thorough": 3400},
)
MANIFEST = {
    "text": "Verified monitor: Lean theorems over ALL accepted commit histories: the commit offsets seen at the coordinator never decrease (commits arrive in issue order, retries included), every "
            "request belongs to an issued commit, and after all commits finished the group's offset and CommittedOffsets of every partition (topic+number) equal its value in the last commit the coordinator "
            "answered without error for that partition - per partition: an answer with mixed per-partition results (one partition refused, another applied) leaves every other partition of that answer "
            "held to its own last successful commit (theorems mixed_response_other_partitions_still_judged, requirement_of_a_partition_ignores_other_partitions); and a commit that REPORTS success to the application (callback without error and error codes, nil from CommitRecords / CommitMarkedOffsets) was answered with success, as shown to the client, for every partition it named (second monitor Model.CommitReport, theorem reported_success_was_answered_successfully). Tie: history correspondence with a real "
            "kgo group member x kfake over two consumed topics under slow and failing commit answers, mixed answers (a consumed topic deleted meanwhile; answers rewritten on the wire), commits whose "
            "context ends early and concurrent rebalances.",
    "note": "Trusted: Lean kernel; monitor vocabulary; harness (including the wire rewriting). Not judged in the final-value clauses: partitions without any successful commit, partitions whose "
            "successful answer was rewritten into an error on the wire (the coordinator applied what the client was told had failed, so the last successful commit is not defined; ends with the "
            "partition's next successful answer), partitions of a deleted topic, scenarios with a commit of unknown outcome. Theorems quantify over all histories; the correspondence samples schedules. "
            "CommittedOffsets clause has two keys: a value of another commit (committedoffsets-differs-from-last-successful-commit) and unset = not listed or 0 "
            "(committedoffsets-unset-after-successful-commit).",
    "technique": "Lean 4 proof over a history monitor with history correspondence against kgo x kfake in synctest bubbles",
}
