from lib.pipeline import Prop
from props import C15 as _c15

PROP = Prop(
    "C16",
    gen=[("FranzVerif/Gen/Schema.lean", _c15.gen_schema)],
    driver="C15", harness="c15",
    quick=["--mode", "c16"], thorough=["--mode", "c16"],
    models=[("pkg/kmsg/api.go", ["internalReadTags", "ReadTags", "SkipTags", "Tags.Set", "StickyMemberMetadata.readFrom"]),
            ("pkg/kmsg/record.go", ["Record.readFrom"]),
            ("pkg/kbin/primitives.go", ["Reader.Span", "Reader.ArrayLen", "Reader.CompactArrayLen", "Reader.VarintArrayLen", "Reader.Uvarint",
                                        "Reader.Complete", "Uvarint", "uvarlong"]),
            ("generate/gen.go", ["Struct.WriteDecode", "Array.WriteDecode", "StructField.WriteDecode"])],
    extra_obligations=_c15.registry_cover,
    run_timeout={"quick": 900, "thorough": 3000},
    rule="one op = one generated type x one version x one byte string, decoded by ReadFrom and UnsafeReadFrom into fresh values under "
         "recover and a 1.5 s per-call deadline. Types and versions as in C15 (all requests/responses 0..max; Record, RecordBatch, "
         "MessageV0/V1, Header, StickyMemberMetadata, the key/value and member metadata types 0..6, 32767 and -1). Byte strings: "
         "structure-aware (AppendTo of a reflection-filled value: nil/empty, boundary ints, compact-length boundaries, unknown tags) "
         "then 80% mutated 1-3 times (truncate, bit flip, boundary byte, insert, delete, boundary int32 window, junk suffix, 1- and "
         "2-byte varint overwrite), 10% valid, 10% arbitrary 3..14 bytes; the empty input; a sample of 1-byte inputs per type-version "
         "(all 256 for three representative types in the thorough tier); two deliberate huge-tag-count messages. Inputs on which the decoder keeps looping over a tag count "
         "taken from the input (pre-screened with a 40 ms deadline) are kept only up to a quota of 3 per run. non-trivial = input "
         "longer than 2 bytes. distinct = distinct op lines.",
    trusted_base=["tools/krammar/krammar.py + Model/C15.lean (schema interpreter) as in C15; the differential run ties `dec` to ReadFrom: same "
                  "ok/err class and same value tree on every input",
                  "modelling decision: a failed read ends the model's decode; the Go code instead continues on an invalidated reader (no-op reads) "
                  "until the next Ok()/Complete(). Proved for the tag loop (Props.C16.early_exit_justified); for the rest of the generated code it "
                  "rests on the differential run under recover",
                  "harness deepSize(): memory reachable from the decoded value (backing arrays by capacity, strings, pointees, tag maps), taken "
                  "after successful AND failed decodes, as the measure of 'memory use'; transient garbage is not measured",
                  "Lean compiler/runtime for the driver"],
    assumptions=["'memory within a constant factor' is checked as deepSize(value) <= 4 KiB + 1024 * len(input) (observed maximum ratio is "
                 "reported in the distribution)",
                 "a call that exceeds its 1.5 s deadline is reported as `hang` and counted as a violation (since /repo 994d56c the tag loops stop "
                 "on a failed reader; Props.C16.tag_loop_steps_linear proves the iteration bound for the loop as the code runs it)"],
    partial="reencode_stable_partial: decode(encode(decode b)) = decode b is proved under the extra hypothesis that the decoded value is in "
            "the encoder's domain (enc = some bs; i.e. lengths below the prefix limits and re-encoded tag payloads below 2^32, which decoded "
            "values satisfy but which is not proved generically). The key lemma (every decoded value is already in normal form) is proved "
            "for every schema; the Go-side check r=1 is evaluated on every successfully decoded input. Everything else is proved at full "
            "strength: totality, ArrayLen bound, value size <= weight(schema) * (|input|+1), min-width consumption.",
)
MANIFEST = {
    "text": "On the schema interpreter of C15 (schema regenerated from the definitions): Lean theorem, by mutual induction over types/fields, "
            "that for every schema, version and every byte string the decoder ends in ok or err and never reaches one of the modelled Go panics "
            "(slice bounds, make with a negative or over-cap length), that array lengths returned by the ArrayLen family never exceed the remaining "
            "bytes, that no allocation request exceeds the input length, that the number of nodes of a decoded value (array slots, fields, unknown "
            "tags) is at most weight(schema type) * (|input|+1) (using the per-version well-formedness of the regenerated schema: every array "
            "element occupies >= 1 byte), that a decoded value is already in normal form and (under an encodability hypothesis, partial) that "
            "re-encoding and decoding it again returns it unchanged. The tag-count loop (internalReadTags/ReadTags/SkipTags, count from the input, "
            "b.Ok() tested before every iteration since /repo 994d56c) is modelled as the code runs it with a step counter: iterations <= |input|+1 "
            "(proved), an invalidated reader ends the loop, and the early-exit model agrees with the loop. A differential run (mutational + structure-aware bytes, every type and "
            "version, ReadFrom and UnsafeReadFrom under recover/deadline) ties the model to the Go decoders and evaluates the property text on "
            "their output: no panic, reachable memory <= 4 KiB + 1024*|input|, re-encode + decode stable.",
    "note": "Trusted: as C15, plus the early-exit modelling decision outside the tag loop and deepSize() as the memory measure on the Go side (the "
            "theorem counts value-tree nodes; bytes per node are the Go struct sizes, observed max 64 bytes of value per input byte). Re-encode stability "
            "is proved modulo encodability of decoded values (partial) and tested on every op. A decode call exceeding its deadline is a violation (`hang`); before /repo 994d56c ~0.3% of mutated flexible "
            "inputs made internalReadTags spin for up to 2^32 iterations, which this check recorded as the hang class tag-count-unbounded-loop.",
    "technique": "Lean 4 proof (totality of the generic schema decoder by mutual induction; step-counting model of the tag loop) with a "
                 "differential fuzz run against ReadFrom/UnsafeReadFrom of every generated type and version",
}
