import os, sys
from lib import pipeline as P
from lib.pipeline import Prop

sys.path.insert(0, os.path.join(P.VERIF, "tools", "krammar"))
import krammar  # independent parser of generate/definitions/* (tie T)


def gen_schema():
    """Tie T: parse <repo>/generate/definitions/* and print lean/FranzVerif/Gen/Schema.lean. A definition the parser does not
    understand raises (translator failure = broken obligation)."""
    return krammar.emit_lean(P.REPO)


def registry_cover():
    """Extra obligation: the harness registry (what is exercised against the Go code) and the definitions name the same encodable
    types with the same key / max version. A definition without a Go counterpart in the harness (or vice versa) is a broken obligation."""
    try:
        hbin = P.build_harness(PROP)
    except P.Broken as b:
        return [("harness registry = definitions", False, b.what + "\n" + b.detail[-1500:])]
    rc, out, err = P.sh([hbin, "list"], env=P.harness_env(0, "quick"), timeout=120)
    have = set(out.split())
    want = set(n for (n, kind, key, maxv) in krammar.listing(P.REPO) if kind in ("req", "resp", "misc")) | {"StickyMemberMetadata"}
    ok = rc == 0 and have == want
    return [("harness registry = definitions", ok,
             "only in definitions: %s; only in harness: %s" % (sorted(want - have), sorted(have - want)))]


PROP = Prop(
    "C15",
    gen=[("FranzVerif/Gen/Schema.lean", gen_schema)],
    models=[("pkg/kmsg/api.go", ["internalReadTags", "Tags.Set", "Tags.Each", "Tags.AppendEach"]),
            ("pkg/kmsg/record.go", ["Record.AppendTo", "Record.readFrom"]),
            ("generate/gen.go", ["Struct.WriteAppend", "Struct.WriteDecode", "Array.WriteAppend", "Array.WriteDecode", "Struct.WriteDefault",
                                 "StructField.writeBeginAndTag", "StructField.WriteDecode", "NullableString.WriteAppend", "NullableString.WriteDecode"])],
    extra_obligations=registry_cover,
    run_timeout={"quick": 900, "thorough": 3000},
    rule="one op = one generated type x one version x one value tree. Types: every request and response of RequestForKey/ResponseForKey "
         "(key 0..MaxKey) and every `not top level` definition that has an encoder (MessageV0/V1, Header, Record, RecordBatch, the "
         "__consumer_offsets/__transaction_state key/value types, member metadata/assignment types, control records, "
         "StickyMemberMetadata); embedded anonymous and `no encoding` structs are covered inside their parents. Versions 0..max "
         "(types with their own Version field: 0..6 and 32767). Values are filled by reflection from the seed in 7 flavours per "
         "type-version: all defaults; random; nil slices/pointers; empty non-nil; boundary ints; compact-length boundaries "
         "126/127/128/129/16382/16383/16384 on strings, bytes and arrays; unknown tags (keys 64..2^32-1, boundary payload lengths) "
         "on any struct that has UnknownTags; fields absent at the version are filled too. non-trivial = the value tree has a "
         "non-zero / non-empty leaf or an unknown tag. distinct = distinct op lines.",
    trusted_base=["tools/krammar/krammar.py: the independent parser of generate/definitions/* that regenerates Gen/Schema.lean on every run",
                  "Model/C15.lean (the generic interpreter enc/dec) as the meaning of the DSL; it is tied to the Go code by the differential run "
                  "(bytes of AppendTo = enc, tree of ReadFrom = dec) and to the property by the proved round-trip theorems",
                  "harness/cmd/c15: reflection-based printer/parser of Go value trees (nil vs empty kept), value generator",
                  "Lean compiler/runtime for the driver"],
    assumptions=["values are Go values of the generated struct types (every integer in its type's range, [16]byte uuids)",
                 "string lengths < 2^15 where a non-flexible int16 prefix is used, byte/array lengths < 2^31 (Go's int16()/int32() conversions truncate beyond)",
                 "unknown tag keys are not keys of defined tags (kmsg.Tags.Set documents this as invalid)",
                 "RecordBatch.Length = len(Records) + 49 (the DSL's length-field-minus relation) for the read-back half",
                 "versioned tagged fields (`// vN+, tag K`) and nested arrays are outside the schema language (none in the definitions; the parser refuses them)"],
)
MANIFEST = {
    "text": "The protocol definitions are parsed on every run by an independent parser into a Lean schema (all 217 definitions). Lean theorems, generic "
            "for every schema, version and value (mutual induction over types/fields/values): decoding the interpreter's encoding followed by any "
            "suffix returns the value's normal form at that version (fields present at the version, absent fields at their defaults, tagged fields "
            "and unknown tags on flexible versions) and the untouched suffix; the encoding depends only on the fields present at the version. The "
            "Go code is tied to the interpreter by a differential run over every generated type x every version 0..max: AppendTo's bytes must equal "
            "the interpreter's bytes and the tree ReadFrom recovers must equal the normal form; a mismatch is reported with type, version and field.",
    "note": "Trusted: Lean kernel; the DSL parser; the interpreter as the DSL's meaning (README semantics; nil-vs-empty and negative-length quirks of the "
            "reader transcribed from kbin); the reflection harness. The varint codec is modelled at the Nat level (LEB128 with the 5/10 byte limits), its "
            "bit-level transcription is C17's. Not covered: request/response headers, RequestFormatter, enum String/Parse helpers, Default() on dirty "
            "values (ReadFrom is always run on a fresh value), versions above a type's max.",
    "technique": "Lean 4 proof (generic schema-interpreter round trip by mutual structural induction) over a schema regenerated from the DSL, with a "
                 "byte-exact differential run against AppendTo/ReadFrom of every generated type and version",
}
