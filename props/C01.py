from lib.pipeline import Prop
_RULE = ("scenario = (limits, linger, manual flushing, 1-5 producer goroutines x 5-45 records mixing Produce/TryProduce/ProduceSync with "
         "cancelled contexts, concurrent Flush/AbortBufferedRecords/PurgeTopicsFromProducing, unknown topic, oversized records, 1-3 brokers with leader moves, "
         "connections killed before or after kfake handled a produce/metadata request, injected retriable produce errors, Close midway or after a final Flush); "
         "real kgo client x real kfake in a testing/synctest bubble (virtual time), history = hook, promise, verif-event and call/return events; "
         "non-trivial = at least 10 produce calls and at least one blocked producer or failed promise; distinct = distinct scenario descriptors")
PROP = Prop(
    "C01", harness="sim", quick=["--mode", "prod"], thorough=["--mode", "prod"], harness_kind="test", tags="verif synctests", driver="C01",
    models=[("pkg/kgo/producer.go", ["Client.produce", "Client.finishRecordPromise", "producer.finishPromises", "Client.Flush"])],
    rule=_RULE,
    trusted_base=["history monitor Model.Producer (acceptor over events; the theorems say every accepted history satisfies the Spec)",
                  "event order is a linearisation: verif events are emitted inside the producer mutex, hook/promise events where the client calls them",
                  "harness/sim (synctest bubble, virtual network, fault layer), Go runtime's synctest scheduler",
                  "Lean compiler/runtime for the driver"],
    assumptions=["no Produce call begins after Close has begun", "ProduceSync's promise is logged when ProduceSync returns"],
    run_timeout={"quick": 900, "thorough": 3400},
)
MANIFEST = {
    "text": "Verified monitor: Lean theorems over ALL accepted event histories of the producer (any length/interleaving/fault sequence): no promise twice, no promise "
            "for anything not produced, and at a quiescent point exactly one promise per produced record, zero gauges, every Flush returned. The tie is the history "
            "correspondence: real kgo client x real kfake scenarios (synctest bubbles, injected connection kills before/after handling, retriable errors, leader moves, "
            "Close midway) must produce histories the monitor accepts.",
    "note": "Trusted: Lean kernel; the monitor's event vocabulary and the harness that records events (verif-tagged event hooks inside the producer mutex, public hooks, promises); "
            "schedules are those the Go runtime produces inside synctest bubbles under the generated delays and faults, not all schedules — the theorem quantifies over all histories, "
            "the correspondence samples them. 'Eventually' is observed at bubble quiescence.",
    "technique": "Lean 4 proof over a history monitor (induction over event histories) with history correspondence against kgo x kfake in synctest bubbles",
}
