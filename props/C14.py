from lib.pipeline import Prop
_RULE = ("scenario = (limits, linger, manual flushing, 1-5 producer goroutines x 5-45 records mixing Produce/TryProduce/ProduceSync with "
         "cancelled contexts, concurrent Flush/AbortBufferedRecords/PurgeTopicsFromProducing, unknown topic, oversized records, 1-3 brokers with leader moves, "
         "connections killed before or after kfake handled a produce/metadata request, injected retriable produce errors, Close midway or after a final Flush); "
         "real kgo client x real kfake in a testing/synctest bubble (virtual time), history = hook, promise, verif-event and call/return events; "
         "non-trivial = at least 10 produce calls and at least one blocked producer or failed promise; distinct = distinct scenario descriptors")
PROP = Prop(
    "C14", harness="sim", quick=["--mode", "prod,cons"], thorough=["--mode", "prod,cons"], harness_kind="test", tags="verif synctests", driver="C14",
    models=[("pkg/kgo/producer.go", ["Client.produce", "Client.finishRecordPromise", "producer.finishPromises", "Client.Flush"])],
    rule=_RULE,
    trusted_base=["history monitor Model.Producer (acceptor over events; the theorems say every accepted history satisfies the Spec)",
                  "event order is a linearisation: verif events are emitted inside the producer mutex, hook/promise events where the client calls them",
                  "harness/sim (synctest bubble, virtual network, fault layer), Go runtime's synctest scheduler",
                  "Lean compiler/runtime for the driver"],
    assumptions=["no Produce call begins after Close has begun", "ProduceSync's promise is logged when ProduceSync returns"],
    run_timeout={"quick": 900, "thorough": 3400},
)
MANIFEST = {
    "text": "Verified monitors (produce half over producer histories, fetch half over direct-consumer histories): Lean theorems over ALL accepted producer histories: each record gets the buffered hook "
            "at most once, the unbuffered hook at most once and only after the buffered one, the promise gets exactly the unbuffered hook's error, and at quiescence every buffered record "
            "was unbuffered exactly once. Tie: history correspondence with real kgo x kfake scenarios in synctest bubbles.",
    "note": "Trusted: Lean kernel; monitor vocabulary and harness (public Hook interfaces + promises). Error equality is compared by class and message hash.",
    "technique": "Lean 4 proof over a history monitor with history correspondence against kgo x kfake in synctest bubbles",
}
