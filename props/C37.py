from lib.pipeline import Prop
F = "plugin/kotel/carrier.go"
PROP = Prop(
    "C37",
    models=[(F, ["RecordCarrier.Get", "RecordCarrier.Set", "RecordCarrier.Keys"]),
            ("plugin/kotel/tracer.go", ["Tracer.OnProduceRecordBuffered", "Tracer.OnFetchRecordBuffered"])],
    group_by_reset=True,
    rule="a case is a group: `reset H` builds a kgo.Record with a generated header list (0-6 headers over 1-4 keys drawn from a pool with the empty key, "
         "case variants, non-UTF-8 bytes, traceparent/tracestate; values nil / empty / bytes, so duplicate keys are the norm), followed by 4-12 "
         "Set/Get/Keys calls on kotel.NewRecordCarrier(record), or by inject-shaped sequences (Sets of a key list, then Gets of the same keys); after every call the "
         "harness dumps record.Headers, Keys() and Get of every header key. `reset E` sends a record (with pre-existing, often clashing, headers) through the real "
         "kotel Tracer hooks with the W3C propagator: OnProduceRecordBuffered injects a span context given on the op line (noop provider: the context's own span; "
         "SDK provider: a child span with deterministic ids), then either via=mem (header copy) or via=wire (kgo.ProduceSync -> kfake of this tree -> kgo.PollRecords "
         "of a second client), then OnFetchRecordBuffered extracts; the extracted span context is read from the consumed record's context (noop) or from the parent "
         "handed to the SDK sampler. Thorough adds every header list of length <= 3 over 2 keys x {nil, empty, bytes} with Get/Set/Get/Keys of 3 keys. "
         "non-trivial = the record has at least one header before the call (reset H: at least 2 headers; reset E: always). distinct = distinct op lines.",
    trusted_base=["hand-written model of RecordCarrier.Get/Set/Keys and of TraceContext inject/extract as Set/Get sequences (Model/C37.lean), tied by differential runs",
                  "harness/cmd/c37 (observation dump; deterministic SDK id generator and capturing sampler used to read the injected/extracted span contexts)",
                  "go.opentelemetry.io/otel propagation.TraceContext and SDK (third party, used as is)",
                  "the wire half (headers unchanged by produce -> kfake -> fetch) is observed end to end, not proved here (record encode/decode is C18/C06)",
                  "Lean compiler/runtime for the driver"],
    assumptions=["Go strings and []byte are byte lists; Set always stores a non-nil value ([]byte(val))",
                 "propagation Spec applicability: a tracestate is injected or the record carries no stale `tracestate` header (otherwise a string map also returns the stale one)"],
)
MANIFEST = {
    "text": "Lean theorems for every header list (duplicate keys, empty keys, nil/empty values) and every key/value: after Set(k,v), Get(k)=v; Get of every other key is "
            "unchanged; Set rewrites exactly the first header with key k in place or appends (k,v) when absent; Keys is the list of header keys; after any sequence "
            "of Sets, Get returns the last value set per key, so inject-then-extract of distinct keys returns the injected values; the W3C trace-context inject "
            "(Set tracestate, Set traceparent) followed by extract returns the injected traceparent/tracestate for every pre-existing header list. The model is tied to "
            "plugin/kotel/carrier.go by differential runs, and the propagation claim is also checked end to end through the real kotel hooks, a kgo producer, kfake and a kgo consumer.",
    "note": "Trusted: Lean kernel; the hand-written carrier model (validated differentially); the OpenTelemetry propagator and SDK; header preservation on the wire is "
            "observed, not proved in this property.",
    "technique": "Lean 4 proof (list induction; sequence law by right-induction) with differential correspondence incl. an end-to-end produce/fetch case class",
}
