from lib.pipeline import Prop
F = "plugin/kotel/carrier.go"
PROP = Prop(
    "C37",
    models=[(F, ["RecordCarrier.Get", "RecordCarrier.Set", "RecordCarrier.Keys"]),
            ("plugin/kotel/tracer.go", ["Tracer.OnProduceRecordBuffered", "Tracer.OnFetchRecordBuffered"]),
            ("pkg/kgo/source.go", ["recordToRecord"])],
    group_by_reset=True,
    rule="a case is a group: `reset H` builds a kgo.Record with a generated header list (0-6 headers over 1-4 keys drawn from a pool with the empty key, "
         "case variants, non-UTF-8 bytes, traceparent/tracestate; values nil / empty / bytes, so duplicate keys are the norm), followed by 4-12 "
         "Set/Get/Keys calls on kotel.NewRecordCarrier(record), or by inject-shaped sequences (Sets of a key list, then Gets of the same keys); after every call the "
         "harness dumps record.Headers, Keys() and Get of every header key. `reset E` sends a record (with pre-existing, often clashing, headers) through the real "
         "kotel Tracer hooks with the W3C propagator: OnProduceRecordBuffered injects a span context given on the op line (noop provider: the context's own span; "
         "SDK provider: a child span with deterministic ids), then via=mem (header copy), via=wire (kgo.ProduceSync -> kfake of this tree -> kgo.PollRecords "
         "of a second client) or via=cmp (as wire, on a compacted topic: the record shares its batch with a filler record that a later batch supersedes, kfake compacts and rewrites the batch from its decoded survivors, a fresh consumer reads the record back), then OnFetchRecordBuffered extracts; the extracted span context is read from the consumed record's context (noop) or from the parent "
         "handed to the SDK sampler. Thorough adds every header list of length <= 3 over 2 keys x {nil, empty, bytes} with Get/Set/Get/Keys of 3 keys. "
         "FETCHED records: `reset B` builds a partition response of one or two v2 record batches (2-6 records, 0-3 application headers each, ~30% of them under "
         "traceparent/tracestate, optional compression, optional fetch offset inside the response) and decodes it with kgo.ProcessFetchPartition of this tree; then "
         "4-12 bset/bget/bkeys calls run a carrier on record i of the batch, the records visited in batch order, in reverse, at random or one record repeatedly "
         "(40% Set of a key the record does not carry, 25% Set of a key it carries), or binj runs the producer-side kotel hook on fetched record i (every record, in "
         "or out of order, some twice) and a final bext runs the consumer-side hook's extraction on every injected record; after EVERY call the headers, Keys() and "
         "Gets of EVERY record of the batch are dumped and compared with the model, in which the records are independent header lists. `reset R` is a bridge, end "
         "to end: a kgo producer without hooks -> kfake -> a kotel-instrumented kgo client (SDK tracer, deterministic ids, TraceContext propagator) that polls and "
         "re-produces the polled *kgo.Record values to a second topic in or out of batch order -> a kotel-instrumented sink; per record the harness reports what "
         "the bridge's producer hook injected (span context of the publish span), what the sink's consumer hook extracted (remote parent of the receive span) and "
         "the sink's headers; a few carrier calls on the sink's (really fetched) records follow. Thorough adds every batch of 2-3 records over 4 header lists with "
         "every pair of Sets (record, one of 3 keys). "
         "non-trivial = the record has at least one header before the call (reset H: at least 2 headers; reset E, reset R: always; batch ops: the batch has at "
         "least 2 header-bearing records; binj/bext: at least 2 records). distinct = distinct op lines.",
    trusted_base=["hand-written model of RecordCarrier.Get/Set/Keys and of TraceContext inject/extract as Set/Get sequences (Model/C37.lean), tied by differential runs",
                  "the records of a fetched batch are modelled as independent header lists (the specification of recordToRecord's per-record header windows); that the "
                  "real slices do not alias is checked by the differential run over decoded batches and over the bridge, not proved",
                  "harness/cmd/c37 (observation dump; deterministic SDK id generator and capturing sampler used to read the injected/extracted span contexts)",
                  "go.opentelemetry.io/otel propagation.TraceContext and SDK (third party, used as is)",
                  "the wire half (headers unchanged by produce -> kfake -> fetch) is observed end to end, not proved here (record encode/decode is C18/C06)",
                  "Lean compiler/runtime for the driver"],
    assumptions=["Go strings and []byte are byte lists; Set always stores a non-nil value ([]byte(val))",
                 "propagation Spec applicability: a tracestate is injected or the record carries no stale `tracestate` header (otherwise a string map also returns the stale one)",
                 "bridge cases: the span context injected by the bridge's producer hook is read from the record's context after Produce returns and is an input of the model"],
)
MANIFEST = {
    "text": "Lean theorems for every header list (duplicate keys, empty keys, nil/empty values) and every key/value: after Set(k,v), Get(k)=v; Get of every other key is "
            "unchanged; Set rewrites exactly the first header with key k in place or appends (k,v) when absent; Keys is the list of header keys; after any sequence "
            "of Sets, Get returns the last value set per key, so inject-then-extract of distinct keys returns the injected values; the W3C trace-context inject "
            "(Set tracestate, Set traceparent) followed by extract returns the injected traceparent/tracestate for every pre-existing header list. For the records of a fetched batch: a Set (or the producer hook's inject) through a carrier on one record "
            "leaves the headers of every other record unchanged, any sequence of injections over the records of a batch acts per record, and a forwarded record "
            "yields its own injected context on extraction whatever was injected into its neighbours. The model is tied to "
            "plugin/kotel/carrier.go by differential runs — on application-built records, on records decoded by kgo.ProcessFetchPartition (every record of the batch "
            "is compared after every call, verdict key set-changed-another-records-headers) and on a produce -> poll -> re-produce -> poll bridge through kfake "
            "(verdict keys extracted-context-differs-from-injected, application-headers-changed) — and the propagation claim is also checked end to end through the real kotel hooks, a kgo producer, kfake and a kgo consumer.",
    "note": "Trusted: Lean kernel; the hand-written carrier model (validated differentially); the OpenTelemetry propagator and SDK; header preservation on the wire is "
            "observed, not proved in this property; independence of the header slices of fetched records is observed on generated batches, not proved.",
    "technique": "Lean 4 proof (list induction; sequence law by right-induction) with differential correspondence incl. an end-to-end produce/fetch case class",
}
