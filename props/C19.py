from lib.pipeline import Prop
PROP = Prop(
    "C19",
    models=[("pkg/kgo/compression.go", ["DefaultCompressor", "compressor.Compress", "mkCompressFlags",
                                        "decompressor.Decompress", "xerialDecode", "DefaultDecompressor"])],
    rule="sel: every preference list of length <=3 (thorough <=5) over codecs 0..4 with and without CompressDisableZstd, lists with unknown codec numbers, "
         "random lists with levels and flag lists (unknown flags, repeated flags). rt: the real DefaultCompressor (all four codecs, gzip/lz4/zstd level pools incl. "
         "invalid levels, multi-codec preference lists with flags) on inputs from 0 bytes to 1 MiB+1 (boundary sizes 0..65537, 256 KiB, 1 MiB; runs, repeated blocks, "
         "text-like, random, mixed), pooled writers warmed on other data first; the real DefaultDecompressor decodes with the reported codec; the compressed bytes go to the "
         "Lean reference snappy / LZ4-frame decoders (xxHash-32 recomputed in Lean) and, for gzip, to python3 zlib in a helper process. dec: maxDecompressedSize set through "
         "the verif export: well-formed data of length L against limits L-1, L, L+1, 2L and the default; bombs (zero runs of 2x..32x the limit, up to 32 MiB quick / 100 MiB "
         "thorough) for every codec and xerial framing; snappy headers claiming up to 2^32; xerial frames whose cumulative size crosses the limit block by block; zstd frames "
         "declaring huge content sizes; mutated compressed inputs (bit flips, truncation, insertion, deletion, 4-byte field tampering in both byte orders, doubling, garbage); "
         "random bytes under codec numbers -1,0..5,77; every truncation of a small xerial frame and tampered xerial length fields. xd: xerialDecode itself with short sources "
         "and a non-empty dst. Non-trivial = rt with a non-empty input, dec/xd with a non-empty source (xd: >=16 bytes) whose snappy blocks the reference decoder can follow, "
         "sel with >=2 preferences or zstd disabled, flags for versions 5..8. distinct = distinct op lines.",
    trusted_base=["hand-written Lean model of DefaultCompressor / Compress selection, Decompress and xerialDecode, tied by differential runs (harness/cmd/c19 vs Driver/C19.lean)",
                  "third-party codecs are parameters of the model: compress/gzip, klauspost/compress s2 + zstd, pierrec/lz4 (round trips, per-call results and internal bomb limits "
                  "are validated by the differential runs only); their per-input answers are fed to the model as an oracle computed by calling the libraries directly",
                  "independent decoders: Lean reference decoders for raw snappy and LZ4 frames (Model/C19.lean, proved memory-safe and bounded), python3 zlib for gzip; none for zstd",
                  "verif export pkg/kgo/verif_export_c19.go (maxDecompressedSize setter, xerialDecode, kept options, codec constructor, error kinds)",
                  "Lean compiler/runtime for the driver"],
    assumptions=["library contracts assumed by the `_partial` theorems: s2.Decode returns exactly s2.DecodedLen bytes; zstd DecodeAll under WithDecoderMaxMemory(max) returns at most max bytes; "
                 "decoders invert the encoders on the encoders' output; library calls do not panic",
                 "maxDecompressedSize >= 1 (0 makes zstd.NewReader fail and the pooled decoder nil); under limits below 1 KiB zstd decodes nothing (its minimum window), so the "
                 "'fitting well-formed input decodes' expectation is applied to zstd only for limits >= 1024",
                 "no independent zstd implementation exists in the sandbox: the 'decodes with independent implementations' clause is not checked for zstd",
                 "CodecNone returns its input unchanged and is not subject to the size bound",
                 "snappy headers that claim up to the limit make s2.Decode allocate that much before failing (2 GiB for 5 bytes at the default limit): memory use is a named runtime residue, not checked",
                 "bombs are exercised against limits <= 1 MiB set through the verif export, not against the 2 GiB default"],
    partial="codec selection, limit arithmetic and xerial framing are proved for all inputs; theorems that need a fact about a third-party codec take it as a hypothesis (`_partial`); "
            "the codecs themselves are exercised differentially only; zstd has no independent decoder here",
    run_timeout={"quick": 900, "thorough": 3000},
)
MANIFEST = {
    "text": "Lean theorems over a model of pkg/kgo/compression.go, for all preference lists, flags, limits and byte strings: DefaultCompressor never indexes an empty option list; "
            "the codec Compress reports is the one whose encoder produced the bytes; zstd is never chosen when CompressDisableZstd is passed; the choice is the first usable "
            "preference (no compression when none is usable); the gzip/lz4 paths return at most maxDecompressedSize bytes whatever the reader yields; xerialDecode never slices "
            "out of range when entered as Decompress enters it, returns at most the limit (given s2.Decode honours s2.DecodedLen), answers an error on every malformed framing and "
            "the concatenation of the blocks on a well-formed one; Decompress never panics and never returns more than the limit for codecs 1..4 (given the s2 and zstd contracts); "
            "compress-then-decompress is the identity given the libraries' round trips. Reference decoders for raw snappy and LZ4 frames are proved never to read out of range and to "
            "return exactly / at most the declared length. The model is tied to the code by differential runs through the public DefaultCompressor/DefaultDecompressor API; the same "
            "runs round-trip every codec and level on inputs up to 1 MiB, decode the real compressor's snappy/LZ4 output with the Lean reference decoders and its gzip output with "
            "python zlib, and throw bombs and mutated inputs at every codec under shrunken limits.",
    "note": "PARTIAL by design. Trusted: Lean kernel; the hand-written model (validated differentially, not verified). Assumed codec contracts (hypotheses of the `_partial` theorems, "
            "exercised but not proved): gzip/snappy/lz4/zstd decode what their encoders emit; s2.Decode returns s2.DecodedLen bytes; zstd.DecodeAll honours WithDecoderMaxMemory; library "
            "calls return instead of panicking. Not covered: an independent zstd decoder (none in the sandbox); memory use of third-party decoders (s2 allocates the claimed size up to "
            "the limit); the 2 GiB default limit itself (bombs run against limits <= 1 MiB set through a verif export); user-provided pools.",
    "technique": "Lean 4 proof (functional induction over the framing loop, list lemmas for selection) with differential correspondence against pkg/kgo and independent reference decoders",
}
