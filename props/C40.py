from lib.pipeline import Prop
PROP = Prop(
    "C40", harness="sim", quick=["--mode", "off"], thorough=["--mode", "off"], harness_kind="test", tags="verif synctests", driver="C40",
    models=[("pkg/kgo/consumer.go", ["Client.listOffsetsForBrokerLoad", "consumer.assignPartitions", "offsetLoadMap.buildListReq",
                                     "Offset.At", "Offset.AtStart", "Offset.AtEnd", "Offset.Relative", "Offset.AfterMilli", "Offset.AtCommitted", "Offset.WithEpoch"]),
            ("pkg/kfake/02_list_offsets.go", ["Cluster.handleListOffsets"])],
    rule="scenario = one partition of a real kfake filled with 2-6 plain produce batches of 1-4 records with chosen timestamps (equal and out-of-order inside a batch; "
         "15%: out of order across batches), a committed and an aborted transaction, optionally a transaction left open while the consumer starts (LSO < end, "
         "later committed or aborted), DeleteRecords to 0/30/60/100% of the LSO; then a consumer of this tree with one Offset: At(x)[.Relative(r)][.WithEpoch(0)], "
         "AtStart().Relative(n), AtEnd().Relative(-n), AfterMilli(t) (t = a record timestamp -1/0/+1, below all, above all), AtCommitted with a committed group offset; given by "
         "ConsumePartitions, ConsumeTopics+ConsumeResetOffset, ConsumeTopics+ConsumeStartOffset or a group; read_uncommitted or read_committed; observed: the first record returned "
         "(if none within 10 empty polls the open transaction ends and 3 more records are appended), final log read back with control records; "
         "non-trivial = a first record was observed and the final log has at least 4 records",
    trusted_base=["history monitor Model.StartOff and the documented rule Model.StartOff.resolve (written from the property text and the Offset documentation)",
                  "ground truth = producer acknowledgements (offset, timestamp, transaction), EndTransaction results, kfake's PartitionInfo (start, LSO, HWM) when the consumer starts, "
                  "the final log read back by a fresh read_uncommitted consumer", "harness/sim (synctest bubble)", "Lean compiler/runtime for the driver"],
    assumptions=["the log does not change between the start of the consumer and its first poll result or ten empty polls of 250 ms (virtual)",
                 "AfterMilli under read_committed: the text does not say whether a record at or above the LSO counts; both readings are accepted (Model.StartOff.ambiguous), "
                 "they differ only when no record below the LSO qualifies and one above does",
                 "AtCommitted is exercised with an existing commit inside [log start, end] only (without a commit the partition fails by design)",
                 "WithEpoch is exercised with the partition's actual epoch only"],
    run_timeout={"quick": 900, "thorough": 3400},
)
MANIFEST = {
    "text": "Lean definition resolve : Offset -> LogShape -> Nat of the documented start position with theorems for ALL offsets and log shapes (bounds [log start, end], identity in range, "
            "monotone in x and r, epoch-independent, AtStart+n capped / AtEnd-n floored, AfterMilli = least offset with timestamp >= t else the end and monotone in t, read_committed end = LSO) "
            "and a verified monitor: in EVERY accepted history the first returned record is the least returnable record at or after resolve(offset, shape). Tie: history correspondence with the "
            "real kgo consumer x kfake over generated log shapes (timestamps, DeleteRecords, committed/aborted/open transactions), every Offset builder, both isolation levels.",
    "note": "Trusted: Lean kernel; monitor vocabulary and harness; ground truth from producer acknowledgements, kfake PartitionInfo and a read-back of the log. Findings on this tree (known_findings.txt): "
            "kfake ListOffsets-by-timestamp (last record <= t of the batch, binary search over unsorted batch timestamps, answers below the log start) and kgo exact offsets that are set on the cursor without "
            "listing (beyond the end -> reset offset; above the LSO under read_committed kept; with epoch -> high watermark).",
    "technique": "Lean 4 proof (properties of the resolution function + history monitor) with history correspondence against kgo x kfake in synctest bubbles",
}
